#include foo
