"""Driver core: builds each harness from the current /repo tree with goto-cc, applies CBMC contract
instrumentation (DFCC or legacy), runs cbmc, classifies every reported property, replays counterexamples
natively, writes evidence.  Exit codes: 0 = all obligations of the tier discharged, 1 = violation, 2 = inconclusive.
"""
import concurrent.futures as cf
import dataclasses
import importlib.util
import json
import os
import re
import shutil
import subprocess
import sys
import tempfile
import time
from dataclasses import dataclass, field
from typing import Dict, List, Optional

VERIF = os.path.dirname(os.path.dirname(os.path.abspath(__file__)))
REPO = os.environ.get("VERIF_REPO", "/repo")
# per-job time limits in the plans were chosen on an idle 16-core machine; they are multiplied by this factor so that a
# slower or busier machine does not turn a proof into INCONCLUSIVE
TIMEOUT_FACTOR = int(os.environ.get("VERIF_TIMEOUT_FACTOR", "3") or 3)
MEM_KB = int(os.environ.get("VERIF_MEM_KB", str(10 * 1024 * 1024)))
NPROC = int(os.environ.get("VERIF_JOBS", str(os.cpu_count() or 4)))

ERROR_FUNCS = ["error", "error_at", "error_tok", "verror_at"]


@dataclass
class Job:
    name: str                      # unique within the property
    src: str                       # harness file, relative to harness/<prop>/
    group: str = ""                # obligation group shown in evidence (e.g. "C07.1 integer folder")
    defs: Dict[str, str] = field(default_factory=dict)
    units: List[str] = field(default_factory=list)      # extra /repo translation units to link
    mode: str = "plain"            # plain | dfcc | legacy
    enforce: Optional[str] = None  # function whose contract is enforced (dfcc / legacy)
    rec: bool = False              # --enforce-contract-rec
    replace: List[str] = field(default_factory=list)    # callees replaced by their contracts
    loops: Optional[str] = None    # loop contracts file (json), relative to harness/<prop>/
    loop_contracts: bool = False   # --apply-loop-contracts (in-source or from file)
    cut: List[str] = field(default_factory=lambda: list(ERROR_FUNCS))  # body := assume(false)
    cut_defined: List[str] = field(default_factory=list)  # functions WITH a body that get assume(false) (e.g. rehash)
    havoc: List[str] = field(default_factory=list)      # functions whose body is removed -> nondet return value
    redirect: Dict[str, str] = field(default_factory=dict)  # calls to f are redirected to the harness stub g (goto-instrument --replace-calls): an assumed stand-in, listed under assumptions
    keep: List[str] = field(default_factory=list)
    unwind: Optional[int] = None
    unwindset: List[str] = field(default_factory=list)
    cbmc_flags: List[str] = field(default_factory=list)
    no_checks: List[str] = field(default_factory=lambda: ["signed-overflow"])   # cbmc 6 default checks to switch off
    object_bits: Optional[int] = 12
    backend: str = "sat"           # sat | cvc5 | z3
    tier: str = "quick"            # quick jobs run in both tiers; thorough only in thorough
    bounded: Optional[str] = None  # text describing the bound => counted under coverage.bounded, never as proved
    timeout: int = 600
    replay: Optional[str] = "native"   # native | None  (program replays are implemented by plan hooks)
    sample: str = ""               # human-readable description of the case
    drop_unused: bool = True
    expect_known: List[str] = field(default_factory=list)  # obligation keys that are known findings (must FAIL)


@dataclass
class JobResult:
    job: Job
    status: str = "ok"             # ok | inconclusive
    reason: str = ""
    props: List[dict] = field(default_factory=list)   # {key, cls, status, name, desc, function}
    wall: float = 0.0
    solver_s: float = 0.0
    log_tail: str = ""
    workdir: str = ""
    cmds: List[str] = field(default_factory=list)


def sh(cmd, cwd=None, timeout=None, env=None, mem_kb=MEM_KB):
    """run with ulimit -v and timeout; returns (rc, out)"""
    pre = f"ulimit -v {mem_kb}; " if mem_kb else ""
    full = pre + cmd
    try:
        p = subprocess.run(["bash", "-c", full], cwd=cwd, stdout=subprocess.PIPE, stderr=subprocess.STDOUT,
                           timeout=timeout, env=env)
        return p.returncode, p.stdout.decode("utf-8", "replace")
    except subprocess.TimeoutExpired as e:
        out = e.stdout.decode("utf-8", "replace") if e.stdout else ""
        return 124, out + "\n[TIMEOUT]"


def q(s):
    return "'" + s.replace("'", "'\\''") + "'"


def classify(name, desc, line=""):
    """Return (class, key).  Classes: obl (our named obligation), post (contract postcondition), reach,
    frame (assigns clause), loop (loop invariant base/step/decreases), pre (callee precondition at a replaced call),
    unwind, safety (CBMC generated)."""
    if desc.startswith("OBL:"):
        return "obl", desc[4:]
    if desc.startswith("REACH:"):
        return "reach", desc
    if ".no-body." in name:
        return "nobody", "nobody:" + name.split(".no-body.")[-1]
    d = desc
    if "unwinding assertion" in d or name.endswith(".unwind") or ".unwind." in name:
        return "unwind", "unwind:" + re.sub(r"\.\d+$", "", name)
    if name.startswith("builtin") or re.match(r"^(strcmp|strlen|strncmp|memcmp|memcpy|strchr|strncasecmp|memset|calloc|malloc|free|strstr|strdup|strndup)\.", name):
        fn = name.split(".")[0]
    else:
        fn = name.split(".")[0]
    if "ensures clause" in d or "postcondition" in name:
        m = re.search(r"\.(\d+)$", name)
        return "post", "post:" + fn + "#" + (m.group(1) if m else "") + ":" + re.sub(r"\s+", " ", d)[:120]
    if "requires clause" in d or "precondition" in name:
        return "pre", "pre:" + fn
    if "is assignable" in d or "assigns" in name:
        return "frame", "frame:" + fn
    if "loop invariant" in d or "invariant" in name or "decreases" in d or "step case" in d:
        kind = "base" if "base" in d or "before entry" in d else ("step" if ("step" in d or "preserved" in d) else ("decreases" if "decreases" in d or "variant" in d else "inv"))
        return "loop", "loop:" + fn + ":" + kind
    m = re.match(r"^(.*?)\.([a-zA-Z_\-]+)\.\d+$", name)
    cls = m.group(2) if m else "assertion"
    return "safety", "safety:" + fn + ":" + cls


def parse_cbmc_json(out):
    """cbmc --json-ui output is a JSON array of messages; tolerate trailing garbage"""
    try:
        start = out.index("[")
        data = json.loads(out[start:])
    except Exception:
        # try to cut at last ']'
        try:
            end = out.rindex("]")
            data = json.loads(out[out.index("["):end + 1])
        except Exception:
            return None
    return data


def run_job(job: Job, prop: str, keep_dir=False) -> JobResult:
    t0 = time.time()
    res = JobResult(job=job)
    hdir = os.path.join(VERIF, "harness", prop)
    wd = tempfile.mkdtemp(prefix=f"verif-{prop}-")
    res.workdir = wd
    try:
        _run_job(job, prop, hdir, wd, res)
    except Exception as e:  # driver bug => inconclusive, never a violation
        res.status = "inconclusive"
        res.reason = f"driver exception: {e!r}"
    res.wall = time.time() - t0
    if not keep_dir:
        shutil.rmtree(wd, ignore_errors=True)
    return res


def goto_cc_cmd(job, hdir, out, native=False):
    defs = " ".join(f"-D{k}={v}" if v != "" else f"-D{k}" for k, v in job.defs.items())
    units = " ".join(q(os.path.join(REPO, u)) for u in job.units)
    return (f"goto-cc -DCHIBICC_VERIF -D__NO_CTYPE -DVERIF_REPO_DIR={q(REPO)} -I{q(os.path.join(VERIF, 'spec'))} -I{q(REPO)} -I{q(hdir)} {defs} "
            f"--function harness {q(os.path.join(hdir, job.src))} {units} -o {out}")


def _run_job(job, prop, hdir, wd, res):
    log = []

    def step(cmd, timeout):
        res.cmds.append(cmd)
        rc, out = sh(cmd, cwd=wd, timeout=timeout)
        log.append(f"$ {cmd}\n{out[-6000:]}")
        return rc, out

    def fail(reason, out=""):
        res.status = "inconclusive"
        res.reason = reason
        res.log_tail = ("\n".join(log))[-8000:]

    rc, out = step(goto_cc_cmd(job, hdir, "a.gb"), 300)
    if rc != 0:
        return fail("goto-cc failed (harness no longer compiles against the tree)")
    cur = "a.gb"
    n = 0

    def gi(args, timeout=600):
        nonlocal cur, n
        n += 1
        nxt = f"s{n}.gb"
        rc, out = step(f"goto-instrument {args} {cur} {nxt}", timeout)
        if rc != 0 or not os.path.exists(os.path.join(wd, nxt)):
            return False, out
        cur = nxt
        return True, out

    # 1. cut / havoc
    rm = list(job.cut_defined) + list(job.havoc)
    if rm:
        ok, out = gi(" ".join(f"--remove-function-body {f}" for f in rm))
        if not ok:
            return fail("remove-function-body failed")
    cuts = list(job.cut) + list(job.cut_defined)
    if cuts:
        rx = "^(" + "|".join(cuts) + ")$"
        ok, out = gi(f"--generate-function-body {q(rx)} --generate-function-body-options assume-false")
        if not ok:
            return fail("generate-function-body failed")
    if job.redirect:
        ok, out = gi(" ".join(f"--replace-calls {f}:{g}" for f, g in job.redirect.items()))
        if not ok:
            return fail("replace-calls failed")
    # 2. bodies of replaced callees are irrelevant: remove so that slicing drops what they call
    if job.replace and job.mode in ("dfcc", "legacy"):
        reps = [f for f in job.replace if f != job.enforce]
        if reps:
            ok, out = gi(" ".join(f"--remove-function-body {f}" for f in reps))
            if not ok:
                return fail("remove-function-body (replaced) failed")
    if job.drop_unused:
        ok, out = gi("--drop-unused-functions")
        if not ok:
            return fail("drop-unused-functions failed")
    # 3. contracts
    if job.mode == "dfcc":
        a = "--dfcc harness"
        if job.enforce:
            a += (" --enforce-contract-rec " if job.rec else " --enforce-contract ") + job.enforce
        for f in job.replace:
            if f != job.enforce:
                a += f" --replace-call-with-contract {f}"
        if job.loop_contracts or job.loops:
            a += " --apply-loop-contracts"
        if job.loops:
            a += f" --loop-contracts-file {q(os.path.join(hdir, job.loops))}"
        ok, out = gi(a, timeout=job.timeout * TIMEOUT_FACTOR)
        if not ok:
            return fail("dfcc instrumentation failed")
    elif job.mode == "legacy":
        a = ""
        if job.loop_contracts or job.loops:
            a += " --apply-loop-contracts"
        if job.loops:
            a += f" --loop-contracts-file {q(os.path.join(hdir, job.loops))}"
        for f in job.replace:
            a += f" --replace-call-with-contract {f}"
        if job.enforce:
            a += f" --enforce-contract {job.enforce}"
        ok, out = gi(a, timeout=job.timeout * TIMEOUT_FACTOR)
        if not ok:
            return fail("legacy contract instrumentation failed")
    # 4. cbmc
    flags = ["--json-ui", "--verbosity 8", "--unwinding-assertions", "--no-malloc-may-fail", "--max-field-sensitivity-array-size 320"]
    for c in job.no_checks:
        flags.append(f"--no-{c}-check")
    if job.unwind is not None:
        flags.append(f"--unwind {job.unwind}")
    if job.unwindset:
        flags.append("--unwindset " + ",".join(job.unwindset))
    if job.object_bits:
        flags.append(f"--object-bits {job.object_bits}")
    if job.backend == "cvc5":
        flags.append("--cvc5")
    elif job.backend == "z3":
        flags.append("--z3")
    flags += job.cbmc_flags
    cmd = f"cbmc {cur} " + " ".join(flags)
    res.cmds.append(cmd)
    rc, out = sh(cmd, cwd=wd, timeout=job.timeout * TIMEOUT_FACTOR)
    open(os.path.join(wd, "cbmc.json"), "w").write(out)
    if rc == 124:
        log.append(f"$ {cmd}\n[TIMEOUT after {job.timeout * TIMEOUT_FACTOR}s]")
        return fail(f"cbmc timeout after {job.timeout * TIMEOUT_FACTOR}s")
    data = parse_cbmc_json(out)
    if data is None:
        log.append(f"$ {cmd}\n{out[-4000:]}")
        return fail("cbmc output not parseable (crash or memory-out)")
    result = None
    msgs = []
    for item in data:
        if isinstance(item, dict):
            if "result" in item:
                result = item["result"]
            if "messageText" in item:
                msgs.append(item["messageText"])
    text = "\n".join(msgs)
    m = re.findall(r"Runtime decision procedure: ([0-9.]+)s", text)
    res.solver_s = sum(float(x) for x in m)
    log.append(f"$ {cmd}\n" + text[-3000:])
    res.log_tail = ("\n".join(log))[-8000:]
    if result is None:
        return fail("cbmc produced no result list: " + text[-400:])
    for w in ("ignoring forall", "ignoring exists"):
        if w in text:
            return fail("quantifier ignored by back end")
    for p in result:
        name = p.get("property", "")
        desc = p.get("description", "")
        loc = p.get("sourceLocation") or {}
        cls, key = classify(name, desc, loc.get("line", ""))
        res.props.append(dict(name=name, desc=desc, cls=cls, key=key, status=p.get("status", ""),
                              function=loc.get("function", ""), file=loc.get("file", "")))


def get_trace(job: Job, prop: str, propname: str):
    """re-run with --trace for one failed property; returns (inputs dict, excerpt, raw steps)"""
    hdir = os.path.join(VERIF, "harness", prop)
    wd = tempfile.mkdtemp(prefix=f"verif-{prop}-tr-")
    res = JobResult(job=job)
    j2 = dataclasses.replace(job, cbmc_flags=list(job.cbmc_flags) + ["--trace", f"--property {propname}"])
    try:
        _run_job(j2, prop, hdir, wd, res)
        out = open(os.path.join(wd, "cbmc.json")).read() if os.path.exists(os.path.join(wd, "cbmc.json")) else ""
    finally:
        shutil.rmtree(wd, ignore_errors=True)
    data = parse_cbmc_json(out) or []
    inputs = {}
    excerpt = []
    for item in data:
        if isinstance(item, dict) and "result" in item:
            for p in item["result"]:
                if p.get("property") == propname and "trace" in p:
                    for st in p["trace"]:
                        if st.get("stepType") == "assignment":
                            lhs = st.get("lhs", "")
                            fn = (st.get("sourceLocation") or {}).get("function", "")
                            val = st.get("value", {})
                            if fn == "harness" and not st.get("hidden") and st.get("assignmentType") == "variable" and re.match(r"^[A-Za-z_]\w*$", lhs):
                                v = val.get("data")
                                if v is not None and lhs not in inputs and not lhs.startswith("return_value") and not lhs.startswith("__"):
                                    if val.get("name") in ("integer", "boolean"):
                                        if v in ("TRUE", "true"):
                                            v = "1"
                                        if v in ("FALSE", "false"):
                                            v = "0"
                                        inputs[lhs] = str(v).rstrip("ulUL")
                                    elif val.get("name") == "float" and "binary" in val:
                                        inputs[lhs] = str(int(val["binary"], 2))
                        if st.get("stepType") in ("failure",):
                            excerpt.append(f"FAILURE {st.get('property')}: {st.get('reason')} at "
                                           f"{(st.get('sourceLocation') or {}).get('file','')}:{(st.get('sourceLocation') or {}).get('line','')}")
    return inputs, "\n".join(excerpt)


def native_replay(job: Job, prop: str, inputs: Dict[str, str], outdir: str, tag: str):
    """compile the same harness with gcc against the same /repo sources and run it on the counterexample inputs"""
    hdir = os.path.join(VERIF, "harness", prop)
    wd = tempfile.mkdtemp(prefix=f"verif-{prop}-nat-")
    try:
        inp = os.path.join(wd, "inputs.txt")
        with open(inp, "w") as f:
            for k, v in inputs.items():
                f.write(f"{k}={v}\n")
        defs = " ".join(f"-D{k}={v}" if v != "" else f"-D{k}" for k, v in job.defs.items())
        # natively every translation unit of the repository is linked (except main.c and the unit(s) the harness
        # #includes textually); main.c's few globals come from spec/native_stubs.c as weak symbols
        src = open(os.path.join(hdir, job.src)).read()
        included = set(re.findall(r'#include "(\w+\.c)"', src))
        for hname in re.findall(r'#include "(\w+\.h)"', src):
            hp = os.path.join(VERIF, "spec", hname)
            if os.path.exists(hp):
                included |= set(re.findall(r'#include "(\w+\.c)"', open(hp).read()))
        allu = sorted(f for f in os.listdir(REPO) if f.endswith(".c") and f != "main.c" and f not in included)
        units = " ".join(q(os.path.join(REPO, u)) for u in allu)
        exe = os.path.join(wd, "replay.exe")
        cmd = (f"gcc -std=gnu11 -w -O0 -c -DVERIF_NATIVE -DCHIBICC_VERIF -DVERIF_REPO_DIR={q(REPO)} -I{q(os.path.join(VERIF, 'spec'))} -I{q(REPO)} -I{q(hdir)} {defs} "
               f"{q(os.path.join(hdir, job.src))} -o {wd}/harness.o && "
               f"gcc -std=gnu11 -w -O0 {wd}/harness.o {units} {q(os.path.join(VERIF, 'spec', 'native_stubs.c'))} -o {exe} -lm")
        rc, out = sh(cmd, cwd=wd, timeout=120, mem_kb=0)
        if rc != 0:
            return dict(kind="native", built=False, reproduced=False, output=out[-2000:], cmd=cmd)
        env = dict(os.environ, VERIF_REPLAY_INPUTS=inp)
        rc, out = sh(f"timeout 20 {exe}", cwd=wd, timeout=30, env=env, mem_kb=4 * 1024 * 1024)
        fails = re.findall(r"^REPLAY-FAIL (.*)$", out, re.M)
        crashed = rc not in (0, 1, 3)
        return dict(kind="native", built=True, reproduced=bool(fails) or crashed, rc=rc,
                    failed_obligations=fails, crashed=crashed, output=out[-2000:],
                    cmd=cmd + f" && VERIF_REPLAY_INPUTS=<inputs> {exe}")
    finally:
        shutil.rmtree(wd, ignore_errors=True)


def load_plan(prop):
    p = os.path.join(VERIF, "harness", prop, "plan.py")
    spec = importlib.util.spec_from_file_location(f"plan_{prop}", p)
    mod = importlib.util.module_from_spec(spec)
    sys.modules[f"plan_{prop}"] = mod
    spec.loader.exec_module(mod)
    return mod


def load_json(path, default):
    try:
        return json.load(open(path))
    except Exception:
        return default


def run_property(prop, tier="quick", only=None, keep=False, update_lock=False, verbose=False):
    t0 = time.time()
    plan = load_plan(prop)
    jobs: List[Job] = plan.jobs(tier)
    if tier == "quick":
        jobs = [j for j in jobs if j.tier == "quick"]
    if only:
        jobs = [j for j in jobs if re.search(only, j.name)]
    names = [j.name for j in jobs]
    assert len(names) == len(set(names)), "duplicate job names"
    lock_path = os.path.join(VERIF, "harness", prop, "obligations.lock")
    lock = load_json(lock_path, {})
    known = [k for k in load_json(os.path.join(VERIF, "known_findings.json"), {}).get("findings", []) if k.get("property") == prop]
    results: List[JobResult] = []
    # a plan may lower the number of jobs run at once for a tier whose jobs are memory-hungry (MAX_PARALLEL = {tier: n})
    nproc = min(NPROC, getattr(plan, "MAX_PARALLEL", {}).get(tier, NPROC))
    with cf.ThreadPoolExecutor(max_workers=nproc) as ex:
        futs = {ex.submit(run_job, j, prop, keep): j for j in jobs}
        for fu in cf.as_completed(futs):
            r = fu.result()
            results.append(r)
            if verbose:
                nf = sum(1 for p in r.props if p["status"] == "FAILURE" and p["cls"] != "reach")
                print(f"  [{r.job.name}] {r.status} {r.reason} props={len(r.props)} fail={nf} wall={r.wall:.1f}s", flush=True)
    results.sort(key=lambda r: names.index(r.job.name))

    violations = []   # (job, key, propname)
    inconclusive = []
    undecided = []    # failing obligation that is not in the lock (never passed on the reference tree)
    known_hits = []
    n_obl = n_dis = 0
    n_bounded = n_bounded_ok = 0
    by_class = {}
    new_lock = {}
    samples = []
    solver_s = 0.0
    for r in results:
        j = r.job
        solver_s += r.solver_s
        if r.status != "ok":
            inconclusive.append((j.name, r.reason, r.log_tail))
            continue
        # aggregate by key
        agg = {}
        counted_fns = set(f.split(":")[-1] for f in getattr(plan, "META", {}).get("functions", []))
        for p in r.props:
            if p["cls"] in ("safety", "frame", "pre") and p["status"] == "SUCCESS" and p["function"] not in counted_fns:
                continue   # generated checks outside the functions under contract (harness, spec, CBMC library, unreachable repo code): not counted
            a = agg.setdefault(p["key"], dict(cls=p["cls"], n=0, fail=[], other=[]))
            a["n"] += 1
            if p["status"] == "FAILURE":
                a["fail"].append(p["name"])
            elif p["status"] != "SUCCESS":
                a["other"].append(p["name"])
        jl = lock.get(j.name, None)
        passed_keys = []
        have_obl = False
        for key, a in agg.items():
            cls = a["cls"]
            if cls == "reach":
                if a["fail"] and len(a["fail"]) == a["n"]:
                    passed_keys.append(key)
                else:
                    # not reachable => vacuous
                    if jl is not None and key in jl:
                        violations.append((r, key, None, "reachability witness no longer reachable (obligations behind it are vacuous)"))
                    else:
                        inconclusive.append((j.name, f"vacuous: {key} unreachable", ""))
                continue
            if cls == "unwind":
                if a["fail"]:
                    inconclusive.append((j.name, f"unwinding assertion failed: {key}", ""))
                continue
            if cls == "nobody":
                if a["fail"] and key.split(":")[1] not in j.havoc:
                    inconclusive.append((j.name, f"reachable call to a function without body: {key}", ""))
                continue
            if cls in ("obl", "post"):
                have_obl = True
            is_known = key in j.expect_known
            if is_known:
                if a["fail"]:
                    known_hits.append((j, key))
                else:
                    # known finding no longer fails: fine (fixed); nothing to report
                    pass
                continue
            # one obligation = one distinct key of a job (all CBMC checks of one class in one function are one key)
            if j.bounded:
                n_bounded += 1
            else:
                n_obl += 1
            by_class[cls] = by_class.get(cls, 0) + 1
            if a["fail"] or a["other"]:
                if a["other"] and not a["fail"]:
                    inconclusive.append((j.name, f"property status not SUCCESS/FAILURE: {key}", ""))
                    continue
                if jl is None or key in jl or update_lock:
                    violations.append((r, key, a["fail"][0], "obligation failed"))
                else:
                    undecided.append((j.name, key))
            else:
                passed_keys.append(key)
                if j.bounded:
                    n_bounded_ok += 1
                else:
                    n_dis += 1
        if not have_obl:
            inconclusive.append((j.name, "no named obligation or postcondition among the checked properties (vacuous harness)", r.log_tail))
        # lock-listed obligations that disappeared
        if jl is not None and not update_lock:
            for key in jl:
                if key not in agg and not key.startswith("safety:") and not key.startswith("frame:") and not key.startswith("pre:"):
                    inconclusive.append((j.name, f"locked obligation missing from this run: {key}", ""))
        new_lock[j.name] = sorted(passed_keys)
        if len(samples) < 12:
            ob = [k for k in passed_keys if not k.startswith("safety:") and not k.startswith("REACH")][:3]
            samples.append(dict(job=j.name, case=j.sample or j.name, mode=j.mode, enforce=j.enforce, obligations=ob,
                                bounded=j.bounded, wall_s=round(r.wall, 2)))
    return dict(plan=plan, jobs=jobs, results=results, violations=violations, inconclusive=inconclusive,
                undecided=undecided, known_hits=known_hits, n_obl=n_obl, n_dis=n_dis, n_bounded=n_bounded,
                n_bounded_ok=n_bounded_ok, by_class=by_class, new_lock=new_lock, lock_path=lock_path,
                samples=samples, solver_s=solver_s, wall=time.time() - t0, known=known)
