"""Replay of a counterexample as a C program: compile it with a chibicc built from the tree under test (scratch copy,
removed afterwards) and with gcc as the reference implementation of C11/psABI, run both, compare stdout."""
import os, shutil, subprocess, tempfile, threading
from . import core

_lock = threading.Lock()
_built = {}


def build_chibicc():
    with _lock:
        if core.REPO in _built and os.path.exists(_built[core.REPO]):
            return _built[core.REPO]
        d = tempfile.mkdtemp(prefix="verif-cc-")
        for f in os.listdir(core.REPO):
            if f.endswith((".c", ".h")) or f == "Makefile":
                shutil.copy(os.path.join(core.REPO, f), d)
        inc = os.path.join(core.REPO, "include")
        if not os.path.isdir(inc):
            inc = "/repo/include"
        shutil.copytree(inc, os.path.join(d, "include"))
        p = subprocess.run("gcc -std=c11 -g -fno-common -w -o chibicc *.c", shell=True, cwd=d, stdout=subprocess.PIPE, stderr=subprocess.STDOUT)
        exe = os.path.join(d, "chibicc")
        if p.returncode != 0 or not os.path.exists(exe):
            shutil.rmtree(d, ignore_errors=True)
            return None
        _built[core.REPO] = exe
        import atexit
        atexit.register(lambda: shutil.rmtree(d, ignore_errors=True))
        return exe


def run_both(src_text, extra_desc=""):
    """returns dict(kind='program', reproduced, chibicc_out, gcc_out, source)"""
    cc = build_chibicc()
    if not cc:
        return dict(kind="program", reproduced=False, error="could not build chibicc from the tree")
    d = tempfile.mkdtemp(prefix="verif-prog-")
    try:
        open(os.path.join(d, "t.c"), "w").write(src_text)
        def run(cmd):
            p = subprocess.run(cmd, shell=True, cwd=d, stdout=subprocess.PIPE, stderr=subprocess.STDOUT, timeout=60)
            return p.returncode, p.stdout.decode("utf-8", "replace")
        rc1, o1 = run(f"{cc} -I{os.path.dirname(cc)}/include -o t1 t.c 2>&1 | grep -v 'warning\\|NOTE' ; timeout 10 ./t1; echo rc=$?")
        rc2, o2 = run("gcc -w -o t2 t.c 2>&1; timeout 10 ./t2; echo rc=$?")
        return dict(kind="program", reproduced=(o1 != o2), chibicc_out=o1[-1500:], reference_out=o2[-1500:], reference="gcc (host)", source=src_text, note=extra_desc)
    except Exception as e:
        return dict(kind="program", reproduced=False, error=repr(e))
    finally:
        shutil.rmtree(d, ignore_errors=True)
