long f(int a,int b,int c,int d,int e,int f,int g, long double x, int h) { return g * 1000 + (long)x * 10 + h; }
