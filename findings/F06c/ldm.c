int printf(const char *, ...);
long f(int a,int b,int c,int d,int e,int f,int g, long double x, int h);
int main(){ printf("%ld\n", f(1,2,3,4,5,6,7, 42.0L, 9)); return 0; }
