// Shared environment for harnesses over the real codegen.c: ghost machine, primitive types, the ghost value
// table and the recursive contract of gen_expr / gen_stmt.
#ifndef CG_HARNESS_H
#define CG_HARNESS_H
#include "verif.h"
#define GM_DEFINE
#include "x86_ghost.h"
#include "codegen.c"
#undef println
#include "c11_ops.h"

bool opt_fpic; bool opt_fcommon = true;
#ifndef CG_NO_INPUT_FILES
File **get_input_files(void) { static File *none[1]; return none; }
#endif

// ---------------------------------------------------------------- types (as type.c defines them; checked by C08.1)
enum { TI_BOOL, TI_CHAR, TI_UCHAR, TI_SHORT, TI_USHORT, TI_INT, TI_UINT, TI_LONG, TI_ULONG, TI_ENUM, TI_PTR,
       TI_FLOAT, TI_DOUBLE, TI_LDOUBLE, TI_VOID, TI_N };
static Type CGT[TI_N];
static void cg_types(void) {
  CGT[TI_BOOL] = (Type){TY_BOOL, 1, 1};
  CGT[TI_CHAR] = (Type){TY_CHAR, 1, 1}; CGT[TI_UCHAR] = (Type){TY_CHAR, 1, 1, 1};
  CGT[TI_SHORT] = (Type){TY_SHORT, 2, 2}; CGT[TI_USHORT] = (Type){TY_SHORT, 2, 2, 1};
  CGT[TI_INT] = (Type){TY_INT, 4, 4}; CGT[TI_UINT] = (Type){TY_INT, 4, 4, 1};
  CGT[TI_LONG] = (Type){TY_LONG, 8, 8}; CGT[TI_ULONG] = (Type){TY_LONG, 8, 8, 1};
  CGT[TI_ENUM] = (Type){TY_ENUM, 4, 4};
  CGT[TI_PTR] = (Type){TY_PTR, 8, 8, 1}; CGT[TI_PTR].base = &CGT[TI_CHAR];
  CGT[TI_FLOAT] = (Type){TY_FLOAT, 4, 4}; CGT[TI_DOUBLE] = (Type){TY_DOUBLE, 8, 8}; CGT[TI_LDOUBLE] = (Type){TY_LDOUBLE, 16, 16};
  CGT[TI_VOID] = (Type){TY_VOID, 1, 1};
  ty_void = &CGT[TI_VOID]; ty_bool = &CGT[TI_BOOL]; ty_char = &CGT[TI_CHAR]; ty_uchar = &CGT[TI_UCHAR];
  ty_short = &CGT[TI_SHORT]; ty_ushort = &CGT[TI_USHORT]; ty_int = &CGT[TI_INT]; ty_uint = &CGT[TI_UINT];
  ty_long = &CGT[TI_LONG]; ty_ulong = &CGT[TI_ULONG]; ty_float = &CGT[TI_FLOAT]; ty_double = &CGT[TI_DOUBLE];
  ty_ldouble = &CGT[TI_LDOUBLE];
}
static inline SpecTy cg_st(Type *t) {
  SpecTy s = { t->size, t->is_unsigned || t->kind == TY_BOOL || t->kind == TY_PTR, t->kind == TY_BOOL };
  return s;
}

// ---------------------------------------------------------------- ghost value table
#define CG_NCHILD 10
Node *cg_child[CG_NCHILD];       /* abstract children of the node under proof */
uint64_t cg_val[CG_NCHILD + 1];  /* their values (canonical in their type; floats as bit patterns); [CG_NCHILD] = root */
int cg_child_at[CG_NCHILD];      /* event sequence number at which each child was evaluated (-1: never) */
Node *cg_root;
int cg_depth_base;
void *cg_extra;                /* harness-owned object the node under proof may write (e.g. argument nodes' pass_by_stack) */
_Bool cg_check_val;            /* the root's value is specified (false for balance-only jobs) */               /* m.sp == depth + cg_depth_base */

static inline int cg_idx(Node *n) { for (int i = 0; i < CG_NCHILD; i++) if (n == cg_child[i]) return i; return CG_NCHILD; }
uint64_t verif_val(Node *n) { return cg_val[cg_idx(n)]; }

// Register convention: where the value of an expression of type ty is after gen_expr.
//  integers <= 32 bits: low 32 bits of rax hold the value extended to 32 bits (upper half unspecified);
//  64-bit integers / pointers / aggregates (address): rax;  float: low 32 bits of xmm0;  double: xmm0;
//  long double: %st(0) (integer-valued model);  void: nothing.
#define CG_LDNAN 0x7ff8deadbeef0001UL     /* ghost value standing for 'a long double NaN' (not used as an integer value) */
static inline _Bool cg_holds(Type *ty, uint64_t v) {
  switch (ty->kind) {
  case TY_VOID: return 1;
  case TY_FLOAT: return (uint32_t)m.xmm[0] == (uint32_t)v;
  case TY_DOUBLE: return m.xmm[0] == v;
  case TY_LDOUBLE: return m.x87 >= 1 && (v == CG_LDNAN ? m.st_int[m.x87 - 1] == 3 : (m.st_int[m.x87 - 1] == 1 && (uint64_t)m.st[m.x87 - 1] == v));
  case TY_BOOL: case TY_CHAR: case TY_SHORT: case TY_INT: case TY_ENUM:
    return (uint32_t)m.r[RAX] == (uint32_t)v;
  default: return m.r[RAX] == v;
  }
}
static inline int cg_x87_delta(Type *ty) { return ty->kind == TY_LDOUBLE ? 1 : 0; }

#define CG_INACTIVE (__CPROVER_old(m.skip) || __CPROVER_old(m.halt))
#define CG_X87_KEEP(i) __CPROVER_ensures(CG_INACTIVE || (i) >= __CPROVER_old(m.x87) || (m.st[i] == __CPROVER_old(m.st[i]) && m.st_int[i] == __CPROVER_old(m.st_int[i])))
#define CG_STK_KEEP(i) __CPROVER_ensures(CG_INACTIVE || (i) >= __CPROVER_old(m.sp) || gm_stk[i] == __CPROVER_old(gm_stk[i]))

// Contract of gen_expr: one value, balanced stack, nothing below the entry stack pointer touched; children are
// side-effect free on data memory (only the node under proof may write it).
static void gen_expr(Node *node)
__CPROVER_requires(node != 0 && node->ty != 0 && node->tok != 0 && node->tok->file != 0)
__CPROVER_requires(!m.unknown && !m.bad && 0 <= m.sp && m.sp <= GM_STK - 6 && m.sp == depth + cg_depth_base)
__CPROVER_requires(0 <= m.x87 && m.x87 <= 6 && 0 <= m.nev && m.nev < GM_EVENTS)
__CPROVER_assigns(!m.skip && !m.halt: m, depth, gm_rz, __CPROVER_object_whole(gm_stk), gm_skip_len, __CPROVER_object_whole(gm_skip_text))
__CPROVER_assigns(!m.skip && !m.halt && node == cg_root: __CPROVER_object_whole(gm_dm), __CPROVER_object_whole(cg_child_at), __CPROVER_object_whole(gm_ev), __CPROVER_object_whole(gm_lab))
__CPROVER_assigns(!m.skip && !m.halt && node == cg_root && cg_extra != 0: __CPROVER_object_whole(cg_extra))
__CPROVER_assigns(!m.skip && !m.halt && node == cg_child[0]: cg_child_at[0]; !m.skip && !m.halt && node == cg_child[1]: cg_child_at[1]; !m.skip && !m.halt && node == cg_child[2]: cg_child_at[2]; !m.skip && !m.halt && node == cg_child[3]: cg_child_at[3]; !m.skip && !m.halt && node == cg_child[4]: cg_child_at[4]; !m.skip && !m.halt && node == cg_child[5]: cg_child_at[5]; !m.skip && !m.halt && node == cg_child[6]: cg_child_at[6]; !m.skip && !m.halt && node == cg_child[7]: cg_child_at[7]; !m.skip && !m.halt && node == cg_child[8]: cg_child_at[8]; !m.skip && !m.halt && node == cg_child[9]: cg_child_at[9])
__CPROVER_ensures(!m.unknown && !m.bad)
__CPROVER_ensures(node == cg_root || (m.skip == __CPROVER_old(m.skip) && m.halt == __CPROVER_old(m.halt) && m.nlab == __CPROVER_old(m.nlab) && m.call_seen == __CPROVER_old(m.call_seen)))
__CPROVER_ensures(m.sp == __CPROVER_old(m.sp) && depth == __CPROVER_old(depth))
__CPROVER_ensures(CG_INACTIVE || m.x87 == __CPROVER_old(m.x87) + cg_x87_delta(node->ty))
__CPROVER_ensures(CG_INACTIVE || (node == cg_root && !cg_check_val) || m.skip || m.halt || cg_holds(node->ty, verif_val(node)))
__CPROVER_ensures(CG_INACTIVE || node == cg_root || (m.nev == __CPROVER_old(m.nev) + 1 && cg_child_at[cg_idx(node)] == __CPROVER_old(m.nev)))
__CPROVER_ensures(CG_INACTIVE || (m.cw_trunc == __CPROVER_old(m.cw_trunc) && (node == cg_root || m.locked_writes == __CPROVER_old(m.locked_writes)) && (node == cg_root ? m.plain_writes_dm >= __CPROVER_old(m.plain_writes_dm) : m.plain_writes_dm == __CPROVER_old(m.plain_writes_dm))))
CG_STK_KEEP(0) CG_STK_KEEP(1) CG_STK_KEEP(2) CG_STK_KEEP(3) CG_STK_KEEP(4) CG_STK_KEEP(5) CG_STK_KEEP(6) CG_STK_KEEP(7)
CG_STK_KEEP(8) CG_STK_KEEP(9) CG_STK_KEEP(10) CG_STK_KEEP(11) CG_STK_KEEP(12) CG_STK_KEEP(13) CG_STK_KEEP(14) CG_STK_KEEP(15)
CG_X87_KEEP(0) CG_X87_KEEP(1) CG_X87_KEEP(2) CG_X87_KEEP(3) CG_X87_KEEP(4) CG_X87_KEEP(5) CG_X87_KEEP(6) CG_X87_KEEP(7)   /* x87 registers below the entry depth keep their contents */
;

// Contract of gen_stmt: a statement leaves no value and no residue; it may end with a jump pending to a label outside
// itself (break/continue/goto/return), in which case the machine is skipping when it returns.
static void gen_stmt(Node *node)
__CPROVER_requires(node != 0 && node->tok != 0 && node->tok->file != 0)
__CPROVER_requires(!m.unknown && !m.bad && 0 <= m.sp && m.sp <= GM_STK - 6 && m.sp == depth + cg_depth_base)
__CPROVER_requires(0 <= m.x87 && m.x87 <= 6 && 0 <= m.nev && m.nev < GM_EVENTS)
__CPROVER_assigns(!m.skip && !m.halt: m, depth, gm_rz, __CPROVER_object_whole(gm_stk), gm_skip_len, __CPROVER_object_whole(gm_skip_text))
__CPROVER_assigns(!m.skip && !m.halt && node == cg_root: __CPROVER_object_whole(gm_dm), __CPROVER_object_whole(cg_child_at), __CPROVER_object_whole(gm_ev), __CPROVER_object_whole(gm_lab))
__CPROVER_assigns(!m.skip && !m.halt && node == cg_root && cg_extra != 0: __CPROVER_object_whole(cg_extra))
__CPROVER_assigns(!m.skip && !m.halt && node == cg_child[0]: cg_child_at[0]; !m.skip && !m.halt && node == cg_child[1]: cg_child_at[1]; !m.skip && !m.halt && node == cg_child[2]: cg_child_at[2]; !m.skip && !m.halt && node == cg_child[3]: cg_child_at[3]; !m.skip && !m.halt && node == cg_child[4]: cg_child_at[4]; !m.skip && !m.halt && node == cg_child[5]: cg_child_at[5]; !m.skip && !m.halt && node == cg_child[6]: cg_child_at[6]; !m.skip && !m.halt && node == cg_child[7]: cg_child_at[7]; !m.skip && !m.halt && node == cg_child[8]: cg_child_at[8]; !m.skip && !m.halt && node == cg_child[9]: cg_child_at[9])
__CPROVER_ensures(!m.unknown && !m.bad)
__CPROVER_ensures(node == cg_root || (m.skip == __CPROVER_old(m.skip) && m.halt == __CPROVER_old(m.halt) && m.nlab == __CPROVER_old(m.nlab) && m.call_seen == __CPROVER_old(m.call_seen)))
__CPROVER_ensures(m.sp == __CPROVER_old(m.sp) && depth == __CPROVER_old(depth))
__CPROVER_ensures(m.x87 == __CPROVER_old(m.x87))
__CPROVER_ensures(CG_INACTIVE || node == cg_root || (m.nev == __CPROVER_old(m.nev) + 1 && cg_child_at[cg_idx(node)] == __CPROVER_old(m.nev)))
__CPROVER_ensures(CG_INACTIVE || (m.cw_trunc == __CPROVER_old(m.cw_trunc) && (node == cg_root || m.locked_writes == __CPROVER_old(m.locked_writes)) && (node == cg_root ? m.plain_writes_dm >= __CPROVER_old(m.plain_writes_dm) : m.plain_writes_dm == __CPROVER_old(m.plain_writes_dm))))
CG_STK_KEEP(0) CG_STK_KEEP(1) CG_STK_KEEP(2) CG_STK_KEEP(3) CG_STK_KEEP(4) CG_STK_KEEP(5) CG_STK_KEEP(6) CG_STK_KEEP(7)
CG_STK_KEEP(8) CG_STK_KEEP(9) CG_STK_KEEP(10) CG_STK_KEEP(11) CG_STK_KEEP(12) CG_STK_KEEP(13) CG_STK_KEEP(14) CG_STK_KEEP(15)
CG_X87_KEEP(0) CG_X87_KEEP(1) CG_X87_KEEP(2) CG_X87_KEEP(3) CG_X87_KEEP(4) CG_X87_KEEP(5) CG_X87_KEEP(6) CG_X87_KEEP(7)   /* x87 registers below the entry depth keep their contents */
;

#ifndef CG_OWN_CALL_HOOK
_Bool cg_call_ret_x87;   /* the callee returns a long double (in %st(0)) */
void gm_call_hook(void) {
  // callee may clobber every caller-saved register and the flags; callee-saved registers, rsp and the caller's stack survive
  GM nd; m.r[RAX] = nd.r[RAX]; m.r[RCX] = nd.r[RCX]; m.r[RDX] = nd.r[RDX]; m.r[RSI] = nd.r[RSI]; m.r[RDI] = nd.r[RDI];
  m.r[R8] = nd.r[R8]; m.r[R9] = nd.r[R9]; m.r[R10] = nd.r[R10]; m.r[R11] = nd.r[R11];
  for (int i = 0; i < 8; i++) m.xmm[i] = nd.xmm[i];
  m.flags_valid = 0;
  if (cg_call_ret_x87) { if (m.x87 >= 8) m.bad = 1; else { m.st_int[m.x87] = 0; m.x87++; } }
}
#endif
static File cg_file; static Token cg_tok;
static inline void cg_node(Node *n, NodeKind k, Type *ty) { n->kind = k; n->ty = ty; n->tok = &cg_tok; }
unsigned char nondet_cg_byte_(void); uint64_t nondet_cg_word_(void);
static inline void cg_init(void) {
  cg_types();
  // arbitrary memory contents in every mode (plain CBMC zero-initialises file-scope objects)
  for (int i = 0; i < GM_DM; i++) gm_dm[i] = nondet_cg_byte_();
  for (int i = 0; i < GM_RZ; i++) gm_rz[i] = nondet_cg_byte_();
  for (int i = 0; i < GM_STK; i++) gm_stk[i] = nondet_cg_word_();
  cg_tok.file = &cg_file; cg_file.file_no = 1; cg_tok.line_no = 1;
  for (int i = 0; i < CG_NCHILD; i++) { cg_child_at[i] = -1; cg_child[i] = 0; cg_val[i] = 0; }
  cg_val[CG_NCHILD] = 0; cg_root = 0; cg_check_val = 1; cg_extra = 0;
  // file-scope tables of string pointers lose their initialisers under DFCC: re-create codegen.c's argument register tables
  // (the real initialisers are compared with these by job C06 argreg-tables, plain mode)
  argreg8[0] = "%dil"; argreg8[1] = "%sil"; argreg8[2] = "%dl"; argreg8[3] = "%cl"; argreg8[4] = "%r8b"; argreg8[5] = "%r9b";
  argreg16[0] = "%di"; argreg16[1] = "%si"; argreg16[2] = "%dx"; argreg16[3] = "%cx"; argreg16[4] = "%r8w"; argreg16[5] = "%r9w";
  argreg32[0] = "%edi"; argreg32[1] = "%esi"; argreg32[2] = "%edx"; argreg32[3] = "%ecx"; argreg32[4] = "%r8d"; argreg32[5] = "%r9d";
  argreg64[0] = "%rdi"; argreg64[1] = "%rsi"; argreg64[2] = "%rdx"; argreg64[3] = "%rcx"; argreg64[4] = "%r8"; argreg64[5] = "%r9";   /* DFCC leaves file-scope objects nondeterministic at harness entry */
}
// arbitrary-but-consistent machine entry state: symbolic registers, sp0 occupied slots with symbolic contents
#define CG_ENTRY_STATE(sp0_) do { \
  GM nd_m_; m = nd_m_; m.unknown = 0; m.bad = 0; m.skip = 0; m.nev = 0; m.x87 = 0; m.flags_valid = 0; m.locked_writes = 0; \
  m.plain_writes_dm = 0; m.call_seen = 0; m.halt = 0; m.nlab = 0; m.skip_ev = -1; m.bj_label = -1; m.bj_at = -1; m.cw_trunc = 0; m.cw_saved = 0; m.rsp_adjust = 0; m.sp = (sp0_); depth = (sp0_); cg_depth_base = 0; \
  m.st_int[0] = m.st_int[1] = m.st_int[2] = m.st_int[3] = m.st_int[4] = m.st_int[5] = m.st_int[6] = m.st_int[7] = 0; \
  } while (0)
#endif
