// Ghost directive log: every println(fmt, ...) of the real code generator is recorded (format string + arguments).
// Used where the obligation is about WHICH directives/instruction forms are emitted (C15), not about executing them.
#ifndef DIRLOG_H
#define DIRLOG_H
#include <string.h>
#define DL_MAX 48
typedef struct { const char *fmt; const char *s0; long i0; const char *s1; long i1; long i2; } DLEntry;
DLEntry dl[DL_MAX]; int dl_n;
static inline void dl_emit(const char *fmt, const char *s0, long i0, const char *s1, long i1, const char *s2, long i2, const char *s3, long i3) {
  if (dl_n < DL_MAX) { dl[dl_n].fmt = fmt; dl[dl_n].s0 = s0; dl[dl_n].i0 = i0; dl[dl_n].s1 = s1; dl[dl_n].i1 = i1; dl[dl_n].i2 = i2; }
  dl_n++;
}
static inline _Bool dl_is(int k, const char *fmt) { return k >= 0 && k < dl_n && k < DL_MAX && !strcmp(dl[k].fmt, fmt); }
#define DL_VS(x) _Generic((x), char *: (x), const char *: (x), default: (char *)0)
#define DL_VI(x) _Generic((x), char *: 0L, const char *: 0L, long double: 0L, double: 0L, default: (long)(x))
#define DL_PL_(f, a, b, c, d, ...) dl_emit(f, DL_VS(a), DL_VI(a), DL_VS(b), DL_VI(b), DL_VS(c), DL_VI(c), DL_VS(d), DL_VI(d))
#define println(...) DL_PL_(__VA_ARGS__, 0L, 0L, 0L, 0L, 0L)
#endif
