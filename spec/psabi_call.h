// System V x86-64 psABI 3.2.3 parameter passing, written independently of chibicc.
// Argument classes used here: 'i' INTEGER scalar (8 bytes in a GP register), 'd' SSE scalar (double), 'f' float,
// 'l' long double (X87 => MEMORY, 16 bytes, 16-aligned), aggregates by their eightbyte classes:
// 'p' {INTEGER} 8 bytes, 'q' {SSE} 8 bytes, 'r' {INTEGER,INTEGER}, 's' {SSE,SSE}, 't' {INTEGER,SSE}, 'u' {SSE,INTEGER},
// 'm' MEMORY aggregate of 24 bytes, 'n' MEMORY aggregate of 20 bytes (five ints).
#ifndef PSABI_CALL_H
#define PSABI_CALL_H
typedef struct { int where; int r0, r1; int mem_off; int size; } SpecArg;   /* where: 0 registers, 1 memory; r: reg numbers (gp 0..5 = rdi,rsi,rdx,rcx,r8,r9 ; 100+k = xmm k ; -1 none) */
typedef struct { int gp, fp, mem; } SpecAbi;
static inline void spec_abi_arg(SpecAbi *st, char k, SpecArg *a) {
  int ngp = 0, nfp = 0, size = 8, align = 8; char c0 = 0, c1 = 0;
  switch (k) {
  case 'i': ngp = 1; c0 = 'I'; break;
  case 'd': case 'f': nfp = 1; c0 = 'S'; break;
  case 'l': size = 16; align = 16; break;                       /* X87: memory */
  case 'p': ngp = 1; c0 = 'I'; break;
  case 'q': nfp = 1; c0 = 'S'; break;
  case 'r': ngp = 2; c0 = 'I'; c1 = 'I'; size = 16; break;
  case 's': nfp = 2; c0 = 'S'; c1 = 'S'; size = 16; break;
  case 't': ngp = 1; nfp = 1; c0 = 'I'; c1 = 'S'; size = 16; break;
  case 'u': ngp = 1; nfp = 1; c0 = 'S'; c1 = 'I'; size = 16; break;
  case 'm': size = 24; break;
  case 'n': size = 20; break;                                    /* MEMORY aggregate whose size is not a multiple of 8 */
  }
  a->size = size; a->r0 = a->r1 = -1; a->mem_off = -1;
  // an argument goes to registers only if ALL its eightbytes get one
  if ((ngp || nfp) && st->gp + ngp <= 6 && st->fp + nfp <= 8) {
    a->where = 0;
    a->r0 = c0 == 'I' ? st->gp++ : 100 + st->fp++;
    if (c1) a->r1 = c1 == 'I' ? st->gp++ : 100 + st->fp++;
  } else {
    a->where = 1;
    st->mem = (st->mem + align - 1) / align * align;
    a->mem_off = st->mem;
    st->mem += (size + 7) / 8 * 8;
  }
}
#endif
