// Ghost x86-64 machine: executes, at emission time, the text the real code generator passes to println().
// Semantics written from the Intel SDM (vol. 2) for the instruction vocabulary chibicc emits.
// The machine is the oracle for "what the emitted text means"; it is part of the trusted base.
//
// Design rules
//  * Dispatch is on the rendered instruction text (AT&T syntax), parsed from the concrete format string; integer
//    format arguments stay symbolic and bind to immediates/displacements.
//  * Text outside the vocabulary sets m.unknown (=> the run is inconclusive, never a pass, never a violation).
//  * A machine-level fault that real hardware/ABI would not forgive (pop of an empty model stack, write to a
//    callee-saved register, access outside the modelled memory) sets m.bad.
//  * Forward jumps are executed by skipping emitted text until the target label is emitted.
#ifndef X86_GHOST_H
#define X86_GHOST_H
#include <stdint.h>
#include <string.h>

enum { RAX, RCX, RDX, RBX, RSP, RBP, RSI, RDI, R8, R9, R10, R11, R12, R13, R14, R15, NREG };

#ifndef GM_STK
#define GM_STK 16            /* model stack slots (8 bytes each); plain jobs with a large frame raise it with -DGM_STK=n */
#endif
#define GM_RZ 32             /* red zone bytes below rsp that the model tracks */
#define GM_DM 256            /* data memory bytes */
#define GM_DM_BASE 0x10000UL /* address of dm[0] */
#define GM_RBP (GM_DM_BASE + 192)  /* frame pointer: locals below, stack-passed parameters above */
#define GM_EVENTS 24

enum { EV_NONE, EV_LABEL, EV_JMP, EV_JCC, EV_BACKJMP, EV_CALL, EV_CHILD, EV_DIRECTIVE, EV_RET, EV_JMP_IND };

typedef struct {
  uint64_t r[NREG];
  uint64_t xmm[8];            /* low 64 bits of xmm0..7 */
  _Bool zf, sf, cf, of, pf, flags_valid;
  int sp;                     /* number of occupied model stack slots; rsp is implied: slot sp-1 is at (%rsp) */
  int x87;                    /* x87 register stack depth */
  int64_t st[8];              /* integer-valued x87 stack (st[x87-1] is %st(0)); valid only where st_int[] */
  unsigned char st_int[8];    /* 0: not integer-valued (outside the model); 1: value is st[i]; 2: value is st[i] + 2^64; 3: a NaN */
  _Bool cw_trunc;             /* x87 control word currently selects truncation */
  _Bool cw_saved;
  int skip;                   /* 0 = running; otherwise skipping to a label */
  int skip_kind;              /* 1 = numeric local label (1f/2f), 2 = .L.<name>.<num>, 3 = string label */
  long skip_num;
  const char *skip_name;
  int unknown;                /* instruction outside the vocabulary */
  int bad;                    /* machine fault */
  int nev;
  int locked_writes;          /* number of lock-prefixed / xchg memory writes (C16) */
  int plain_writes_dm;        /* number of ordinary stores to data memory */
  int rsp_adjust;             /* bytes subtracted from rsp by "sub $n,%rsp" beyond the slot model (never in balance) */
  int halt;                   /* a backward jump was taken: this single pass ends here (later text is not executed) */
  int nlab;                   /* labels defined so far by the code under proof */
  int call_seen;              /* number of call instructions executed */
  int skip_ev;                /* event index of the jump that started the current skip */
  int bj_label;               /* label table index the back-edge went to (-1: none taken) */
  int bj_at;                  /* event number of the back-edge */
} GM;
#define GM_LABELS 8
#define GM_LABLEN 28
typedef struct { _Bool has_num; long num; char text[GM_LABLEN]; int len; int sp; int x87; int at; } GLabel;
extern GLabel gm_lab[GM_LABELS];

typedef struct { int kind; long a; long b; const char *s; } GEvent;

extern GM m;
extern uint64_t gm_stk[GM_STK];
extern unsigned char gm_rz[GM_RZ];
extern unsigned char gm_dm[GM_DM];
extern GEvent gm_ev[GM_EVENTS];

#ifdef GM_DEFINE
GLabel gm_lab[GM_LABELS];
GM m;
uint64_t gm_stk[GM_STK];
unsigned char gm_rz[GM_RZ];
unsigned char gm_dm[GM_DM];
GEvent gm_ev[GM_EVENTS];
#endif

static inline void gm_event(int kind, long a, long b, const char *s) {
  if (m.nev < GM_EVENTS) { gm_ev[m.nev].kind = kind; gm_ev[m.nev].a = a; gm_ev[m.nev].b = b; gm_ev[m.nev].s = s; }
  m.nev++;
}

// ---------------------------------------------------------------- operand model
enum { O_NONE, O_IMM, O_REG, O_MEM, O_XMM, O_LABEL, O_ST, O_SYM };
typedef struct {
  int kind;
  int reg;        /* O_REG: register id; O_MEM: base register id (or -1); O_XMM: index */
  int size;       /* O_REG: 1,2,4,8 ; 0 = unknown */
  _Bool high;     /* %ah */
  long val;       /* O_IMM value / O_MEM displacement */
  _Bool indirect; /* "*%r10" */
  const char *text;
  int len;
} GOp;

static inline int gm_streq(const char *a, int n, const char *lit) {
  int i = 0;
  for (; i < n; i++) { if (lit[i] == 0 || lit[i] != a[i]) return 0; }
  return lit[i] == 0;
}

// register names by (bank, index); written as switches because tables of pointers to string literals are lost
// by the DFCC instrumentation (same effect as the compound-literal initialisers of type.c)
static inline const char *gm_regname(int bank, int i) {
  if (bank == 8) switch (i) { case 0: return "rax"; case 1: return "rcx"; case 2: return "rdx"; case 3: return "rbx"; case 4: return "rsp"; case 5: return "rbp"; case 6: return "rsi"; case 7: return "rdi";
    case 8: return "r8"; case 9: return "r9"; case 10: return "r10"; case 11: return "r11"; case 12: return "r12"; case 13: return "r13"; case 14: return "r14"; default: return "r15"; }
  if (bank == 4) switch (i) { case 0: return "eax"; case 1: return "ecx"; case 2: return "edx"; case 3: return "ebx"; case 4: return "esp"; case 5: return "ebp"; case 6: return "esi"; case 7: return "edi";
    case 8: return "r8d"; case 9: return "r9d"; case 10: return "r10d"; case 11: return "r11d"; case 12: return "r12d"; case 13: return "r13d"; case 14: return "r14d"; default: return "r15d"; }
  if (bank == 2) switch (i) { case 0: return "ax"; case 1: return "cx"; case 2: return "dx"; case 3: return "bx"; case 4: return "sp"; case 5: return "bp"; case 6: return "si"; case 7: return "di";
    case 8: return "r8w"; case 9: return "r9w"; case 10: return "r10w"; case 11: return "r11w"; case 12: return "r12w"; case 13: return "r13w"; case 14: return "r14w"; default: return "r15w"; }
  switch (i) { case 0: return "al"; case 1: return "cl"; case 2: return "dl"; case 3: return "bl"; case 4: return "spl"; case 5: return "bpl"; case 6: return "sil"; case 7: return "dil";
    case 8: return "r8b"; case 9: return "r9b"; case 10: return "r10b"; case 11: return "r11b"; case 12: return "r12b"; case 13: return "r13b"; case 14: return "r14b"; default: return "r15b"; }
}
static inline int gm_parse_reg(const char *s, int n, int *size, _Bool *high) {
  *high = 0;
  for (int i = 0; i < NREG; i++) {
    if (gm_streq(s, n, gm_regname(8, i))) { *size = 8; return i; }
    if (gm_streq(s, n, gm_regname(4, i))) { *size = 4; return i; }
    if (gm_streq(s, n, gm_regname(2, i))) { *size = 2; return i; }
    if (gm_streq(s, n, gm_regname(1, i))) { *size = 1; return i; }
  }
  if (gm_streq(s, n, "ah")) { *size = 1; *high = 1; return RAX; }
  return -1;
}

// The rendered line: text with symbolic integers replaced by a marker byte 0x01 followed by the argument index.
#define GM_LINE 300
typedef struct { char t[GM_LINE]; int n; long iv[4]; } GLine;

static inline long gm_parse_int(const GLine *L, const char *s, int n, _Bool *ok) {
  *ok = 1;
  if (n == 2 && s[0] == 1) return L->iv[(int)(s[1] - '0')];
  if (n == 3 && s[0] == '-' && s[1] == 1) return -L->iv[(int)(s[2] - '0')];
  int i = 0; _Bool neg = 0; unsigned long v = 0;
  if (n == 0) { *ok = 0; return 0; }
  if (s[0] == '-') { neg = 1; i = 1; } else if (s[0] == '+') i = 1;
  if (i >= n) { *ok = 0; return 0; }
  if (n - i > 2 && s[i] == '0' && (s[i + 1] == 'x' || s[i + 1] == 'X')) {
    for (i += 2; i < n; i++) {
      char c = s[i]; int d;
      if (c >= '0' && c <= '9') d = c - '0'; else if (c >= 'a' && c <= 'f') d = c - 'a' + 10; else if (c >= 'A' && c <= 'F') d = c - 'A' + 10; else { *ok = 0; return 0; }
      v = v * 16 + d;
    }
  } else {
    for (; i < n; i++) { char c = s[i]; if (c < '0' || c > '9') { *ok = 0; return 0; } v = v * 10 + (c - '0'); }
  }
  return neg ? -(long)v : (long)v;
}

static inline GOp gm_parse_op(const GLine *L, const char *s, int n) {
  GOp o; o.kind = O_NONE; o.reg = -1; o.size = 0; o.high = 0; o.val = 0; o.indirect = 0; o.text = s; o.len = n;
  while (n > 0 && s[0] == ' ') { s++; n--; }
  while (n > 0 && s[n - 1] == ' ') n--;
  o.text = s; o.len = n;
  if (n == 0) return o;
  if (s[0] == '*') { o.indirect = 1; s++; n--; }
  if (s[0] == '$') {
    _Bool ok; long v = gm_parse_int(L, s + 1, n - 1, &ok);
    if (ok) { o.kind = O_IMM; o.val = v; } else { o.kind = O_SYM; }
    return o;
  }
  if (s[0] == '%') {
    if (n == 5 && gm_streq(s, 4, "%xmm") && s[4] >= '0' && s[4] <= '7') { o.kind = O_XMM; o.reg = s[4] - '0'; return o; }
    if (n == 6 && gm_streq(s, 5, "%xmm\001")) { long k = L->iv[(int)(s[5] - '0')]; o.kind = O_XMM; o.reg = (int)k; return o; }   /* %xmm%d : index concrete in practice */
    if (gm_streq(s, n, "%st(0)")) { o.kind = O_ST; o.reg = 0; return o; }
    int size; _Bool high; int r = gm_parse_reg(s + 1, n - 1, &size, &high);
    if (r >= 0) { o.kind = O_REG; o.reg = r; o.size = size; o.high = high; return o; }
    o.kind = O_SYM; return o;     /* %fs:0 etc. */
  }
  // memory: [disp](%base)
  int lp = -1;
  for (int i = 0; i < n; i++) if (s[i] == '(') { lp = i; break; }
  if (lp >= 0 && s[n - 1] == ')') {
    int size; _Bool high;
    if (s[lp + 1] != '%') { o.kind = O_SYM; return o; }
    int r = gm_parse_reg(s + lp + 2, n - lp - 3, &size, &high);
    if (r < 0 || size != 8) { o.kind = O_SYM; return o; }      /* sym(%rip) and friends */
    long d = 0;
    if (lp > 0) { _Bool ok; d = gm_parse_int(L, s, lp, &ok); if (!ok) { o.kind = O_SYM; return o; } }
    o.kind = O_MEM; o.reg = r; o.val = d; return o;
  }
  o.kind = O_LABEL;
  return o;
}

// ---------------------------------------------------------------- register / memory access
static inline uint64_t gm_mask(int size) { return size == 8 ? ~0UL : size == 4 ? 0xffffffffUL : size == 2 ? 0xffffUL : 0xffUL; }

static inline uint64_t gm_rsp_value(void);

static inline uint64_t gm_get_reg(int r, int size, _Bool high) {
  uint64_t v = (r == RSP) ? gm_rsp_value() : m.r[r];
  if (high) return (v >> 8) & 0xff;
  return v & gm_mask(size);
}
static inline void gm_set_reg(int r, int size, _Bool high, uint64_t v) {
  if (r == RBX || r == R12 || r == R13 || r == R14 || r == R15) { m.bad = 1; return; }   /* callee-saved: never written by chibicc output */
  if (r == RSP || r == RBP) { m.bad = 1; return; }                                       /* only through the dedicated forms */
  if (high) { m.r[r] = (m.r[r] & ~0xff00UL) | ((v & 0xff) << 8); return; }
  if (size == 8) m.r[r] = v;
  else if (size == 4) m.r[r] = v & 0xffffffffUL;                    /* 32-bit writes zero the upper half */
  else m.r[r] = (m.r[r] & ~gm_mask(size)) | (v & gm_mask(size));     /* 8/16-bit writes preserve the rest */
}

// The model stack: slot i (0-based from the bottom) holds a 64-bit word; (%rsp) is slot sp-1.
// rsp as a number: an abstract base minus 8*sp; only used for alignment reasoning and never dereferenced as data.
#define GM_RSP_BASE 0x7fff0000UL
static inline uint64_t gm_rsp_value(void) { return GM_RSP_BASE - 8UL * (uint64_t)m.sp; }

typedef struct { int space; long idx; } GAddr;    /* space: 1 = stack slots (byte index from rsp), 2 = red zone, 3 = data memory, 0 = invalid */

static inline GAddr gm_addr(const GOp *o) {
  GAddr a; a.space = 0; a.idx = 0;
  if (o->reg == RSP) {
    if (o->val >= 0) { a.space = 1; a.idx = o->val; }
    else if (o->val >= -GM_RZ) { a.space = 2; a.idx = GM_RZ + o->val; }
    return a;
  }
  uint64_t base = (o->reg == RBP) ? GM_RBP : m.r[o->reg];
  uint64_t addr = base + (uint64_t)o->val;
  if (addr >= GM_DM_BASE && addr < GM_DM_BASE + GM_DM) { a.space = 3; a.idx = (long)(addr - GM_DM_BASE); }
  return a;
}

static inline uint64_t gm_load(const GOp *o, int size) {
  GAddr a = gm_addr(o);
  uint64_t v = 0;
  if (a.space == 1) {
    // byte offset idx from rsp inside the occupied slots
    if (a.idx + size > 8L * m.sp || m.sp > GM_STK) { m.bad = 1; return 0; }
    for (int i = 0; i < size; i++) {
      long b = a.idx + i; int slot = m.sp - 1 - (int)(b / 8);
      v |= ((gm_stk[slot] >> (8 * (b % 8))) & 0xff) << (8 * i);
    }
    return v;
  }
  if (a.space == 2) {
    if (a.idx + size > GM_RZ) { m.bad = 1; return 0; }
    for (int i = 0; i < size; i++) v |= (uint64_t)gm_rz[a.idx + i] << (8 * i);
    return v;
  }
  if (a.space == 3) {
    if (a.idx + size > GM_DM) { m.bad = 1; return 0; }
    for (int i = 0; i < size; i++) v |= (uint64_t)gm_dm[a.idx + i] << (8 * i);
    return v;
  }
  m.bad = 1;
  return 0;
}
static inline void gm_store(const GOp *o, int size, uint64_t v) {
  GAddr a = gm_addr(o);
  if (a.space == 1) {
    if (a.idx + size > 8L * m.sp || m.sp > GM_STK) { m.bad = 1; return; }
    for (int i = 0; i < size; i++) {
      long b = a.idx + i; int slot = m.sp - 1 - (int)(b / 8); int sh = 8 * (int)(b % 8);
      gm_stk[slot] = (gm_stk[slot] & ~(0xffUL << sh)) | (((v >> (8 * i)) & 0xff) << sh);
    }
    return;
  }
  if (a.space == 2) {
    if (a.idx + size > GM_RZ) { m.bad = 1; return; }
    for (int i = 0; i < size; i++) gm_rz[a.idx + i] = (unsigned char)(v >> (8 * i));
    return;
  }
  if (a.space == 3) {
    if (a.idx + size > GM_DM) { m.bad = 1; return; }
    for (int i = 0; i < size; i++) gm_dm[a.idx + i] = (unsigned char)(v >> (8 * i));
    m.plain_writes_dm++;
    return;
  }
  m.bad = 1;
}

static inline uint64_t gm_read(const GOp *o, int size) {
  if (o->kind == O_IMM) return (uint64_t)o->val & gm_mask(size);
  if (o->kind == O_REG) return gm_get_reg(o->reg, size, o->high);
  if (o->kind == O_MEM) return gm_load(o, size);
  m.unknown = 1; return 0;
}
static inline void gm_write(const GOp *o, int size, uint64_t v) {
  if (o->kind == O_REG) { gm_set_reg(o->reg, size, o->high, v); return; }
  if (o->kind == O_MEM) { gm_store(o, size, v); return; }
  m.unknown = 1;
}

static inline _Bool gm_parity(uint64_t v) { v &= 0xff; v ^= v >> 4; v ^= v >> 2; v ^= v >> 1; return !(v & 1); }
static inline uint64_t gm_sign(int size) { return 1UL << (size * 8 - 1); }
static inline int64_t gm_sext(uint64_t v, int size) {
  return size == 8 ? (int64_t)v : size == 4 ? (int64_t)(int32_t)v : size == 2 ? (int64_t)(int16_t)v : (int64_t)(int8_t)v;
}
static inline void gm_flags_logic(uint64_t res, int size) {
  res &= gm_mask(size);
  m.zf = res == 0; m.sf = (res & gm_sign(size)) != 0; m.cf = 0; m.of = 0; m.pf = gm_parity(res); m.flags_valid = 1;
}
static inline void gm_flags_sub(uint64_t a, uint64_t b, int size) {   /* a - b */
  uint64_t mk = gm_mask(size); a &= mk; b &= mk;
  uint64_t res = (a - b) & mk;
  m.zf = res == 0; m.sf = (res & gm_sign(size)) != 0; m.cf = a < b;
  m.of = (((a ^ b) & (a ^ res)) & gm_sign(size)) != 0; m.pf = gm_parity(res); m.flags_valid = 1;
}
static inline void gm_flags_add(uint64_t a, uint64_t b, int size) {
  uint64_t mk = gm_mask(size); a &= mk; b &= mk;
  uint64_t res = (a + b) & mk;
  m.zf = res == 0; m.sf = (res & gm_sign(size)) != 0; m.cf = res < a;
  m.of = ((~(a ^ b) & (a ^ res)) & gm_sign(size)) != 0; m.pf = gm_parity(res); m.flags_valid = 1;
}

static inline int gm_cond(const char *cc, int n) {   /* returns 0/1, or -1 if the condition code is unknown */
  if (!m.flags_valid) { m.bad = 1; return 0; }
  if (gm_streq(cc, n, "e") || gm_streq(cc, n, "z")) return m.zf;
  if (gm_streq(cc, n, "ne") || gm_streq(cc, n, "nz")) return !m.zf;
  if (gm_streq(cc, n, "l")) return m.sf != m.of;
  if (gm_streq(cc, n, "le")) return m.zf || m.sf != m.of;
  if (gm_streq(cc, n, "g")) return !m.zf && m.sf == m.of;
  if (gm_streq(cc, n, "ge")) return m.sf == m.of;
  if (gm_streq(cc, n, "b") || gm_streq(cc, n, "c")) return m.cf;
  if (gm_streq(cc, n, "be")) return m.cf || m.zf;
  if (gm_streq(cc, n, "a")) return !m.cf && !m.zf;
  if (gm_streq(cc, n, "ae") || gm_streq(cc, n, "nc")) return !m.cf;
  if (gm_streq(cc, n, "s")) return m.sf;
  if (gm_streq(cc, n, "ns")) return !m.sf;
  if (gm_streq(cc, n, "p")) return m.pf;
  if (gm_streq(cc, n, "np")) return !m.pf;
  return -1;
}

// ---------------------------------------------------------------- SSE helpers (CBMC: bit-precise IEEE-754, RNE)
static inline float gm_f32(uint64_t b) { union { uint32_t u; float f; } x; x.u = (uint32_t)b; return x.f; }
static inline double gm_f64(uint64_t b) { union { uint64_t u; double f; } x; x.u = b; return x.f; }
static inline uint64_t gm_b32(float f) { union { uint32_t u; float f; } x; x.f = f; return x.u; }
static inline uint64_t gm_b64(double f) { union { uint64_t u; double f; } x; x.f = f; return x.u; }
static inline void gm_set_xmm32(int i, float f) { m.xmm[i] = (m.xmm[i] & ~0xffffffffUL) | gm_b32(f); }   /* scalar single ops keep bits 32..127 */
static inline void gm_ucomi(_Bool unordered, _Bool lt, _Bool eq) {   /* SDM UCOMISS: unordered ZF,PF,CF=111; > 000; < 001; = 100 */
  if (unordered) { m.zf = 1; m.pf = 1; m.cf = 1; }
  else if (eq) { m.zf = 1; m.pf = 0; m.cf = 0; }
  else if (lt) { m.zf = 0; m.pf = 0; m.cf = 1; }
  else { m.zf = 0; m.pf = 0; m.cf = 0; }
  m.of = 0; m.sf = 0; m.flags_valid = 1;
}
// cvtt*2si: out-of-range / NaN gives the "integer indefinite" value (0x80000000 / 0x8000000000000000)
static inline uint64_t gm_cvtt_f64(double d, int size) {
  if (size == 4) { if (d != d || d >= 2147483648.0 || d <= -2147483649.0) return 0x80000000UL; return (uint64_t)(uint32_t)(int32_t)d; }
  if (d != d || d >= 9223372036854775808.0 || d < -9223372036854775808.0) return 0x8000000000000000UL;
  return (uint64_t)(int64_t)d;
}

// ---------------------------------------------------------------- label handling
static inline void gm_start_skip_numeric(long n) { m.skip = 1; m.skip_kind = 1; m.skip_num = n; m.skip_name = 0; }
static inline void gm_start_skip_named(const char *name, int nlen, long num, _Bool has_num) {
  m.skip = 1; m.skip_kind = has_num ? 2 : 3; m.skip_num = num; m.skip_name = name; (void)nlen;
}

// ---------------------------------------------------------------- the interpreter
static inline int gm_suffix_size(char c) { return c == 'b' ? 1 : c == 'w' ? 2 : c == 'l' ? 4 : c == 'q' ? 8 : 0; }

// split "name.\001k" style labels: returns 1 and the numeric part if the text ends in a marker
static inline _Bool gm_label_num(const GLine *L, const char *s, int n, long *num, int *stem) {
  if (n >= 2 && s[n - 2] == 1) { *num = L->iv[(int)(s[n - 1] - '0')]; *stem = n - 2; return 1; }
  *stem = n; *num = 0; return 0;
}

static inline _Bool gm_same_text(const char *a, int an, const char *b, int bn) {
  if (an != bn) return 0;
  for (int i = 0; i < an; i++) if (a[i] != b[i]) return 0;
  return 1;
}

// target text of the pending forward jump (copied, because the rendered line buffer is reused)
extern char gm_skip_text[64]; extern int gm_skip_len;
#ifdef GM_DEFINE
char gm_skip_text[64]; int gm_skip_len;
#endif

static inline int gm_find_label(const char *s, int stem, _Bool hn, long num) {
  for (int i = 0; i < GM_LABELS; i++) {
    if (i >= m.nlab) break;
    if (gm_lab[i].has_num == hn && (!hn || gm_lab[i].num == num) && gm_same_text(s, stem, gm_lab[i].text, gm_lab[i].len)) return i;
  }
  return -1;
}
static inline void gm_jump_to(const GLine *L, const char *s, int n) {
  // numeric local labels "1f" / "1b"
  if (n == 2 && s[0] >= '0' && s[0] <= '9' && s[1] == 'f') { gm_start_skip_numeric(s[0] - '0'); return; }
  if (n == 2 && s[0] >= '0' && s[0] <= '9' && s[1] == 'b') { gm_event(EV_BACKJMP, -1, 0, 0); m.halt = 1; return; }
  long num; int stem; _Bool hn = gm_label_num(L, s, n, &num, &stem);
  if (stem > 63 || stem >= GM_LABLEN) { m.unknown = 1; return; }
  int k = gm_find_label(s, stem, hn, num);
  if (k >= 0) {
    // backward jump to a label this code already emitted: the loop back-edge.  The machine state must be the one the
    // label was reached with (stack/x87 balance across iterations); this single pass ends here.
    if (gm_lab[k].sp != m.sp || gm_lab[k].x87 != m.x87) m.bad = 1;
    m.bj_label = k; m.bj_at = m.nev;
    gm_event(EV_BACKJMP, k, 0, 0);
    m.halt = 1;
    return;
  }
  for (int i = 0; i < stem; i++) gm_skip_text[i] = s[i];
  gm_skip_len = stem;
  m.skip = 1; m.skip_kind = hn ? 2 : 3; m.skip_num = num; m.skip_ev = m.nev - 1;
}

static inline void gm_define_label(const GLine *L, const char *s, int n) {
  // s[0..n) is the label text without the colon
  if (m.halt) return;
  if (n == 1 && s[0] >= '0' && s[0] <= '9') {
    if (m.skip && m.skip_kind == 1 && m.skip_num == s[0] - '0') m.skip = 0;
    return;
  }
  long num; int stem; _Bool hn = gm_label_num(L, s, n, &num, &stem);
  if (stem >= GM_LABLEN || m.nlab >= GM_LABELS) { m.unknown = 1; return; }
  _Bool landing = m.skip && m.skip_kind == (hn ? 2 : 3) && gm_same_text(s, stem, gm_skip_text, gm_skip_len) && (!hn || num == m.skip_num);
  if (m.skip && !landing) return;             /* a label passed over while skipping is not reached by this pass */
  int k = m.nlab++;
  gm_lab[k].has_num = hn; gm_lab[k].num = num; gm_lab[k].len = stem; gm_lab[k].sp = m.sp; gm_lab[k].x87 = m.x87; gm_lab[k].at = m.nev;
  for (int i = 0; i < GM_LABLEN; i++) gm_lab[k].text[i] = i < stem ? s[i] : 0;
  if (landing) {
    m.skip = 0;
    if (m.skip_ev >= 0 && m.skip_ev < GM_EVENTS) gm_ev[m.skip_ev].b = k + 1;   /* the jump landed on label k */
  }
  gm_event(EV_LABEL, k, landing, 0);
}

static inline void gm_exec(const GLine *L, const char *s, int n);
void gm_call_hook(void);     /* provided by the harness: effect of an emitted call instruction on the machine */

// Execute one rendered line (may contain several ';'-separated instructions).
static inline void gm_exec_line(const GLine *L) {
  int i = 0;
  while (i < L->n) {
    int j = i;
    while (j < L->n && L->t[j] != ';') j++;
    // trim
    int a = i, b = j;
    while (a < b && L->t[a] == ' ') a++;
    while (b > a && L->t[b - 1] == ' ') b--;
    if (b > a) {
      // a "label: insn" pair (cast table: "1: mov ...") is split at the colon
      int c = -1;
      for (int k = a; k < b; k++) { if (L->t[k] == ':') { c = k; break; } if (L->t[k] == ' ' || L->t[k] == '%' || L->t[k] == '$') break; }
      if (c >= 0) {
        gm_define_label(L, L->t + a, c - a);
        int a2 = c + 1; while (a2 < b && L->t[a2] == ' ') a2++;
        if (b > a2 && !m.skip && !m.halt) gm_exec(L, L->t + a2, b - a2);
      } else if (!m.skip && !m.halt) {
        gm_exec(L, L->t + a, b - a);
      }
    }
    i = j + 1;
  }
}

#define MN(lit) gm_streq(mn, mlen, lit)

static inline void gm_exec(const GLine *L, const char *s, int n) {
  // mnemonic
  int mlen = 0;
  while (mlen < n && s[mlen] != ' ') mlen++;
  const char *mn = s;
  // optional prefix
  _Bool lock = 0;
  if (MN("lock")) {
    lock = 1; s += mlen; n -= mlen; while (n > 0 && s[0] == ' ') { s++; n--; }
    mlen = 0; while (mlen < n && s[mlen] != ' ') mlen++; mn = s;
  }
  // operands
  const char *rest = s + mlen; int rn = n - mlen;
  int comma = -1, depthp = 0;
  for (int k = 0; k < rn; k++) { if (rest[k] == '(') depthp++; else if (rest[k] == ')') depthp--; else if (rest[k] == ',' && depthp == 0) { comma = k; break; } }
  GOp o1, o2;
  if (comma >= 0) { o1 = gm_parse_op(L, rest, comma); o2 = gm_parse_op(L, rest + comma + 1, rn - comma - 1); }
  else { o1 = gm_parse_op(L, rest, rn); o2 = gm_parse_op(L, rest, 0); }

  // ---- directives
  if (mn[0] == '.') { gm_event(EV_DIRECTIVE, 0, 0, 0); return; }

  // ---- stack
  if (MN("push")) {
    if (o1.kind != O_REG || o1.size != 8) { m.unknown = 1; return; }
    if (m.sp >= GM_STK) { m.bad = 1; return; }
    gm_stk[m.sp] = (o1.reg == RBP) ? GM_RBP : gm_get_reg(o1.reg, 8, 0); m.sp++; return;
  }
  if (MN("pop")) {
    if (o1.kind != O_REG || o1.size != 8) { m.unknown = 1; return; }
    if (m.sp <= 0) { m.bad = 1; return; }
    m.sp--;
    if (o1.reg == RBP) return;          /* epilogue */
    gm_set_reg(o1.reg, 8, 0, gm_stk[m.sp]); return;
  }
  // rsp adjustments: sub/add $imm, %rsp move the stack pointer by whole slots
  if ((MN("sub") || MN("add")) && o2.kind == O_REG && o2.reg == RSP && o2.size == 8) {
    if (o1.kind != O_IMM || o1.val < 0 || (o1.val % 8) != 0) { m.unknown = 1; return; }
    long k = o1.val / 8;
    if (MN("sub")) { if (m.sp + k > GM_STK) { m.bad = 1; return; } m.sp += (int)k; }     /* new slots hold garbage: left as they are */
    else { if (k > m.sp) { m.bad = 1; return; } m.sp -= (int)k; }
    m.flags_valid = 0;
    return;
  }
  if (MN("mov") && o1.kind == O_REG && o1.reg == RSP && o2.kind == O_REG && o2.reg == RBP) { return; }   /* prologue */
  if (MN("mov") && o1.kind == O_REG && o1.reg == RBP && o2.kind == O_REG && o2.reg == RSP) { return; }   /* epilogue */

  // ---- data movement
  if (MN("mov") || MN("movq") || MN("movl") || MN("movw") || MN("movb") || MN("movabs")) {
    if (o1.kind == O_XMM || o2.kind == O_XMM) {       /* movq %rax, %xmm0 / movq %xmm0, %rax */
      if (!MN("movq")) { m.unknown = 1; return; }
      if (o1.kind == O_REG && o2.kind == O_XMM) { m.xmm[o2.reg] = gm_get_reg(o1.reg, 8, 0); return; }
      if (o1.kind == O_XMM && o2.kind == O_REG) { gm_set_reg(o2.reg, 8, 0, m.xmm[o1.reg]); return; }
      m.unknown = 1; return;
    }
    int size = mlen == 4 && mn[3] != 's' ? gm_suffix_size(mn[3]) : 0;
    if (o1.kind == O_REG) size = o1.size; else if (o2.kind == O_REG) size = o2.size;
    if (o1.kind == O_REG && o2.kind == O_REG && o1.size != o2.size) { m.unknown = 1; return; }
    if (size == 0 || o1.kind == O_SYM || o2.kind == O_SYM || o1.kind == O_LABEL) { m.unknown = 1; return; }
    uint64_t v;
    if (o1.kind == O_IMM) {
      // mov $imm: 32-bit immediates are sign-extended for 64-bit destinations; "mov $imm64, %reg" takes the full value
      if (o2.kind == O_MEM && size == 8 && (o1.val < -2147483648L || o1.val > 2147483647L)) { m.bad = 1; return; }
      v = (uint64_t)o1.val & gm_mask(size);
    } else v = gm_read(&o1, size);
    if (o1.kind == O_REG && o1.reg == RSP) v = gm_rsp_value();
    if (o1.kind == O_REG && o1.reg == RBP && size == 8) v = GM_RBP;      /* the frame pointer's value is the model's frame address */
    gm_write(&o2, size, v);
    return;
  }
  if (MN("movsbl") || MN("movswl") || MN("movzbl") || MN("movzwl") || MN("movsbq") || MN("movswq") || MN("movslq") ||
      MN("movzbq") || MN("movzwq") || MN("movsxd") || MN("movzx") || MN("movzb") || MN("movzw") || MN("movsx")) {
    int ss, ds; _Bool sx;
    if (MN("movsxd")) { ss = 4; ds = 8; sx = 1; }
    else if (MN("movzx") || MN("movsx") || MN("movzb") || MN("movzw")) {
      sx = MN("movsx");
      if (MN("movzb")) ss = 1; else if (MN("movzw")) ss = 2; else if (o1.kind == O_REG) ss = o1.size; else { m.unknown = 1; return; }
      if (o2.kind != O_REG) { m.unknown = 1; return; }
      ds = o2.size;
    } else { sx = mn[3] == 's'; ss = gm_suffix_size(mn[4]); ds = gm_suffix_size(mn[5]); }
    if (o2.kind != O_REG || o2.size != ds || (o1.kind == O_REG && o1.size != ss) || ss >= ds) { m.unknown = 1; return; }
    uint64_t v = gm_read(&o1, ss);
    gm_set_reg(o2.reg, ds, 0, sx ? (uint64_t)gm_sext(v, ss) & gm_mask(ds) : v);
    return;
  }
  if (MN("lea")) {
    if (o2.kind != O_REG || o2.size != 8) { m.unknown = 1; return; }
    if (o1.kind == O_MEM && o1.reg != RSP) {
      uint64_t base = (o1.reg == RBP) ? GM_RBP : m.r[o1.reg];
      gm_set_reg(o2.reg, 8, 0, base + (uint64_t)o1.val); return;
    }
    if (o1.kind == O_SYM) { gm_event(EV_DIRECTIVE, 1, 0, 0); gm_set_reg(o2.reg, 8, 0, 0x600000UL); return; }   /* symbol(%rip): an abstract link-time address (form checked by C15) */
    m.unknown = 1; return;
  }
  // ---- ALU
  if (MN("add") || MN("sub") || MN("and") || MN("or") || MN("xor") || MN("cmp") || MN("test") || MN("addq") || MN("addl") || MN("subq")) {
    int size = o2.kind == O_REG ? o2.size : o1.kind == O_REG ? o1.size : (mlen == 4 ? gm_suffix_size(mn[3]) : 0);
    if (size == 0 || (o1.kind == O_REG && o2.kind == O_REG && o1.size != o2.size)) { m.unknown = 1; return; }
    if (o1.kind == O_SYM || o2.kind == O_SYM || o1.kind == O_XMM || o2.kind == O_XMM) { m.unknown = 1; return; }
    uint64_t a = gm_read(&o2, size);   /* destination (second operand in AT&T) */
    uint64_t b;
    if (o1.kind == O_IMM) {
      // ALU immediates are at most 32 bits, sign-extended
      if (o1.val < -2147483648L || o1.val > 4294967295L) { m.bad = 1; return; }
      if (size == 8 && o1.val > 2147483647L) { m.bad = 1; return; }          /* would not encode as written */
      b = (uint64_t)o1.val & gm_mask(size);
    } else b = gm_read(&o1, size);
    _Bool is_add = mn[0] == 'a' && mn[1] == 'd', is_sub = mn[0] == 's', is_cmp = mn[0] == 'c', is_test = mn[0] == 't';
    if (is_add) { gm_flags_add(a, b, size); gm_write(&o2, size, (a + b) & gm_mask(size)); return; }
    if (is_sub) { gm_flags_sub(a, b, size); gm_write(&o2, size, (a - b) & gm_mask(size)); return; }
    if (is_cmp) { gm_flags_sub(a, b, size); return; }
    if (is_test) { gm_flags_logic(a & b, size); return; }
    uint64_t r = MN("and") ? (a & b) : MN("or") ? (a | b) : (a ^ b);
    gm_flags_logic(r, size); gm_write(&o2, size, r & gm_mask(size)); return;
  }
  if (MN("imul")) {
    if (o1.kind != O_REG || o2.kind != O_REG || o1.size != o2.size || o1.size < 4) { m.unknown = 1; return; }
    uint64_t a = gm_get_reg(o2.reg, o2.size, 0), b = gm_get_reg(o1.reg, o1.size, 0);
    gm_set_reg(o2.reg, o2.size, 0, (a * b) & gm_mask(o2.size)); m.flags_valid = 0; return;
  }
  if (MN("neg") || MN("not") || MN("inc") || MN("dec")) {
    if (o1.kind != O_REG) { m.unknown = 1; return; }
    uint64_t a = gm_get_reg(o1.reg, o1.size, 0);
    uint64_t r = MN("neg") ? (0 - a) : MN("not") ? ~a : MN("inc") ? a + 1 : a - 1;
    gm_set_reg(o1.reg, o1.size, 0, r & gm_mask(o1.size));
    if (!MN("not")) m.flags_valid = 0;
    return;
  }
  if (MN("shl") || MN("shr") || MN("sar") || MN("sal")) {
    GOp *dst = comma >= 0 ? &o2 : &o1;
    if (dst->kind != O_REG) { m.unknown = 1; return; }
    int size = dst->size;
    uint64_t cnt;
    if (comma < 0) cnt = 1;                                     /* "shr %rdi" */
    else if (o1.kind == O_IMM) cnt = (uint64_t)o1.val;
    else if (o1.kind == O_REG && o1.reg == RCX && o1.size == 1) cnt = m.r[RCX] & 0xff;
    else { m.unknown = 1; return; }
    cnt &= (size == 8 ? 63 : 31);                              /* SDM: count masked to 5 bits (6 with REX.W) */
    uint64_t a = gm_get_reg(dst->reg, size, 0), r;
    if (size < 4) { m.unknown = 1; return; }
    if (MN("shl") || MN("sal")) r = a << cnt;
    else if (MN("shr")) r = a >> cnt;
    else r = (uint64_t)(gm_sext(a, size) >> cnt);
    gm_set_reg(dst->reg, size, 0, r & gm_mask(size)); m.flags_valid = 0; return;
  }
  if (MN("cqo")) { m.r[RDX] = ((int64_t)m.r[RAX] < 0) ? ~0UL : 0; return; }
  if (MN("cdq")) { m.r[RDX] = ((int32_t)m.r[RAX] < 0) ? 0xffffffffUL : 0; return; }
  if (MN("div") || MN("idiv")) {
    if (o1.kind != O_REG || o1.size < 4) { m.unknown = 1; return; }
    int size = o1.size; uint64_t mk = gm_mask(size);
    uint64_t d = gm_get_reg(o1.reg, size, 0), lo = m.r[RAX] & mk, hi = m.r[RDX] & mk;
    if (d == 0) { m.bad = 1; return; }                                    /* #DE */
    if (MN("div")) {
      if (hi != 0) { m.bad = 1; return; }                                  /* dividend wider than one register: not produced by chibicc */
      gm_set_reg(RAX, size, 0, lo / d); gm_set_reg(RDX, size, 0, lo % d);
    } else {
      int64_t sl = gm_sext(lo, size), sd = gm_sext(d, size);
      if (hi != ((sl < 0) ? mk : 0)) { m.bad = 1; return; }                /* rdx:rax must be the sign extension of rax */
      if (sd == -1 && sl == gm_sext(gm_sign(size), size)) { m.bad = 1; return; }   /* #DE on overflow */
      gm_set_reg(RAX, size, 0, (uint64_t)(sl / sd) & mk); gm_set_reg(RDX, size, 0, (uint64_t)(sl % sd) & mk);
    }
    m.flags_valid = 0; return;
  }
  if (mlen >= 4 && mn[0] == 's' && mn[1] == 'e' && mn[2] == 't') {
    int c = gm_cond(mn + 3, mlen - 3);
    if (c < 0 || o1.kind != O_REG || o1.size != 1) { m.unknown = 1; return; }
    gm_set_reg(o1.reg, 1, o1.high, (uint64_t)c); return;
  }
  // ---- control flow
  if (MN("jmp")) {
    if (o1.indirect) { gm_event(EV_JMP_IND, 0, 0, 0); return; }
    if (o1.kind != O_LABEL) { m.unknown = 1; return; }
    gm_event(EV_JMP, 1, 0, 0);
    gm_jump_to(L, o1.text, o1.len); return;
  }
  if (mn[0] == 'j') {
    int c = gm_cond(mn + 1, mlen - 1);
    if (c < 0 || o1.kind != O_LABEL) { m.unknown = 1; return; }
    gm_event(EV_JCC, c, 0, 0);
    if (c) gm_jump_to(L, o1.text, o1.len);
    return;
  }
  if (MN("call")) {
    // System V call: rsp must be 16-byte aligned at the call; caller-saved registers are clobbered by the callee
    gm_event(EV_CALL, m.sp, 0, 0);
    gm_call_hook();
    return;
  }
  if (MN("ret")) { gm_event(EV_RET, 0, 0, 0); return; }
  // ---- atomics
  if (MN("cmpxchg")) {
    if (o1.kind != O_REG || o2.kind != O_MEM) { m.unknown = 1; return; }
    int size = o1.size; uint64_t cur = gm_load(&o2, size), acc = gm_get_reg(RAX, size, 0);
    gm_flags_sub(acc, cur, size);
    if (acc == cur) { int w = m.plain_writes_dm; gm_store(&o2, size, gm_get_reg(o1.reg, size, 0)); m.plain_writes_dm = w; }
    else { gm_set_reg(RAX, size, 0, cur); }
    if (lock) m.locked_writes++; else m.bad = 1;               /* an unlocked cmpxchg is not atomic */
    return;
  }
  if (MN("xchg")) {
    if (o1.kind != O_REG || o2.kind != O_MEM) { m.unknown = 1; return; }
    int size = o1.size; uint64_t cur = gm_load(&o2, size);
    int w = m.plain_writes_dm; gm_store(&o2, size, gm_get_reg(o1.reg, size, 0)); m.plain_writes_dm = w;
    gm_set_reg(o1.reg, size, 0, cur);
    m.locked_writes++;                                           /* xchg with memory is implicitly locked */
    return;
  }
  // ---- SSE
  if (MN("movss") || MN("movsd")) {
    int size = MN("movss") ? 4 : 8;
    if (o1.kind == O_XMM && o2.kind == O_MEM) { gm_store(&o2, size, m.xmm[o1.reg] & gm_mask(size)); return; }
    if (o1.kind == O_MEM && o2.kind == O_XMM) { m.xmm[o2.reg] = gm_load(&o1, size); return; }   /* load form zeroes the rest */
    m.unknown = 1; return;
  }
  if (MN("movd")) {
    if (o1.kind == O_REG && o1.size == 4 && o2.kind == O_XMM) { m.xmm[o2.reg] = gm_get_reg(o1.reg, 4, 0); return; }
    if (o1.kind == O_XMM && o2.kind == O_REG && o2.size == 4) { gm_set_reg(o2.reg, 4, 0, m.xmm[o1.reg] & 0xffffffffUL); return; }
    m.unknown = 1; return;
  }
  if (MN("pxor") || MN("xorps") || MN("xorpd")) {
    if (o1.kind != O_XMM || o2.kind != O_XMM) { m.unknown = 1; return; }
    m.xmm[o2.reg] ^= m.xmm[o1.reg]; return;
  }
  if (MN("addss") || MN("subss") || MN("mulss") || MN("divss")) {
    if (o1.kind != O_XMM || o2.kind != O_XMM) { m.unknown = 1; return; }
    float a = gm_f32(m.xmm[o2.reg]), b = gm_f32(m.xmm[o1.reg]);
    float r = mn[0] == 'a' ? a + b : mn[0] == 's' ? a - b : mn[0] == 'm' ? a * b : a / b;
    gm_set_xmm32(o2.reg, r); return;
  }
  if (MN("addsd") || MN("subsd") || MN("mulsd") || MN("divsd")) {
    if (o1.kind != O_XMM || o2.kind != O_XMM) { m.unknown = 1; return; }
    double a = gm_f64(m.xmm[o2.reg]), b = gm_f64(m.xmm[o1.reg]);
    double r = mn[0] == 'a' ? a + b : mn[0] == 's' ? a - b : mn[0] == 'm' ? a * b : a / b;
    m.xmm[o2.reg] = gm_b64(r); return;
  }
  if (MN("ucomiss") || MN("ucomisd") || MN("comiss") || MN("comisd")) {
    if (o1.kind != O_XMM || o2.kind != O_XMM) { m.unknown = 1; return; }
    // AT&T "ucomisd %src, %dst" compares dst with src
    if (mn[mlen - 1] == 's' && mn[mlen - 2] == 's') { float a = gm_f32(m.xmm[o2.reg]), b = gm_f32(m.xmm[o1.reg]); gm_ucomi(a != a || b != b, a < b, a == b); }
    else { double a = gm_f64(m.xmm[o2.reg]), b = gm_f64(m.xmm[o1.reg]); gm_ucomi(a != a || b != b, a < b, a == b); }
    return;
  }
  if (MN("cvtss2sd")) { if (o1.kind != O_XMM || o2.kind != O_XMM) { m.unknown = 1; return; } m.xmm[o2.reg] = gm_b64((double)gm_f32(m.xmm[o1.reg])); return; }
  if (MN("cvtsd2ss")) { if (o1.kind != O_XMM || o2.kind != O_XMM) { m.unknown = 1; return; } gm_set_xmm32(o2.reg, (float)gm_f64(m.xmm[o1.reg])); return; }
  if (MN("cvtsi2ssl") || MN("cvtsi2ssq") || MN("cvtsi2sdl") || MN("cvtsi2sdq") || MN("cvtsi2sd") || MN("cvtsi2ss")) {
    if (o1.kind != O_REG || o2.kind != O_XMM) { m.unknown = 1; return; }
    int size = mlen == 9 ? gm_suffix_size(mn[8]) : o1.size;
    if (size != o1.size || size < 4) { m.unknown = 1; return; }
    int64_t v = gm_sext(gm_get_reg(o1.reg, size, 0), size);
    if (mn[7] == 's') gm_set_xmm32(o2.reg, (float)v); else m.xmm[o2.reg] = gm_b64((double)v);
    return;
  }
  if (MN("cvttss2sil") || MN("cvttss2siq") || MN("cvttsd2sil") || MN("cvttsd2siq")) {
    if (o1.kind != O_XMM || o2.kind != O_REG) { m.unknown = 1; return; }
    int size = gm_suffix_size(mn[9]);
    if (size != o2.size) { m.unknown = 1; return; }
    double d = mn[5] == 's' ? (double)gm_f32(m.xmm[o1.reg]) : gm_f64(m.xmm[o1.reg]);   /* float->double is exact */
    gm_set_reg(o2.reg, size, 0, gm_cvtt_f64(d, size)); return;
  }
  // ---- x87 (depth + integer-valued contents)
  if (MN("fldt") || MN("flds") || MN("fldl") || MN("fldz") || MN("fildl") || MN("fildll") || MN("fildq") || MN("filds")) {
    if (m.x87 >= 8) { m.bad = 1; return; }
    int i = m.x87++;
    m.st_int[i] = 0; m.st[i] = 0;
    if (MN("fldz")) { m.st_int[i] = 1; m.st[i] = 0; return; }
    if (o1.kind != O_MEM) { m.unknown = 1; return; }
    if (MN("fildl")) { m.st_int[i] = 1; m.st[i] = gm_sext(gm_load(&o1, 4), 4); }
    else if (MN("filds")) { m.st_int[i] = 1; m.st[i] = gm_sext(gm_load(&o1, 2), 2); }
    else if (MN("fildll") || MN("fildq")) { m.st_int[i] = 1; m.st[i] = (int64_t)gm_load(&o1, 8); }
    return;
  }
  if (MN("fstpt") || MN("fstps") || MN("fstpl") || MN("fistps") || MN("fistpl") || MN("fistpq") || MN("fistpll")) {
    if (m.x87 <= 0) { m.bad = 1; return; }
    m.x87--;
    if (mn[1] == 'i') {
      if (o1.kind != O_MEM) { m.unknown = 1; return; }
      if (!m.cw_trunc) { m.bad = 1; return; }                   /* C requires truncation: rounding mode must have been switched */
      int size = MN("fistps") ? 2 : MN("fistpl") ? 4 : 8;
      if (m.st_int[m.x87] == 1) {
        int64_t v = m.st[m.x87];
        // out of range for the destination => integer indefinite
        uint64_t out = (gm_sext((uint64_t)v & gm_mask(size), size) == v) ? ((uint64_t)v & gm_mask(size)) : gm_sign(size);
        gm_store(&o1, size, out);
      } else { gm_store(&o1, size, 0); m.unknown = 1; }
    } else if (o1.kind == O_ST) { /* fstp %st(0): pop */ }
    else if (o1.kind != O_MEM) { m.unknown = 1; }
    else if (MN("fstpt")) {
      // the 80-bit image itself is outside the model; the integer-valued tag is written to the first 8 bytes so that
      // the position of a stored long double can be observed (C06 memory arguments)
      gm_store(&o1, 8, m.st_int[m.x87] == 1 ? (uint64_t)m.st[m.x87] : 0);
    }
    return;
  }
  if (MN("fstp")) { if (m.x87 <= 0) { m.bad = 1; return; } m.x87--; return; }
  if (MN("faddp") || MN("fsubrp") || MN("fmulp") || MN("fdivrp") || MN("fsubp") || MN("fdivp")) {
    // no-operand AT&T forms as GNU as assembles them (the r-forms are swapped relative to the SDM names):
    //   faddp: st1 = st1 + st0   fmulp: st1 = st1 * st0   fsubrp: st1 = st1 - st0   fsubp: st1 = st0 - st1
    //   fdivrp: st1 = st1 / st0  fdivp: st1 = st0 / st1    then pop.
    // Integer-valued operands stay in the model when the exact result is an integer below 2^62 in magnitude
    // (exactly representable in the 64-bit mantissa); everything else leaves the model (tag 0).
    if (m.x87 < 2) { m.bad = 1; return; }
    int64_t a = m.st[m.x87 - 2], b = m.st[m.x87 - 1]; _Bool both = m.st_int[m.x87 - 2] == 1 && m.st_int[m.x87 - 1] == 1;
    _Bool small = a > -(1L << 30) && a < (1L << 30) && b > -(1L << 30) && b < (1L << 30);
    _Bool mid = a > -(1L << 61) && a < (1L << 61) && b > -(1L << 61) && b < (1L << 61);
    m.x87--;
    m.st_int[m.x87 - 1] = 0;
    if (both) {
      if (MN("faddp") && mid) { m.st[m.x87 - 1] = a + b; m.st_int[m.x87 - 1] = 1; }
      else if (MN("fsubrp") && mid) { m.st[m.x87 - 1] = a - b; m.st_int[m.x87 - 1] = 1; }
      else if (MN("fsubp") && mid) { m.st[m.x87 - 1] = b - a; m.st_int[m.x87 - 1] = 1; }
      else if (MN("fmulp") && small) { m.st[m.x87 - 1] = a * b; m.st_int[m.x87 - 1] = 1; }
      /* exact quotients only; 32-bit host arithmetic (the operands are below 2^31 here) keeps the divider small for the solver */
      else if (MN("fdivrp") && small && b != 0 && (int32_t)a % (int32_t)b == 0) { m.st[m.x87 - 1] = (int32_t)a / (int32_t)b; m.st_int[m.x87 - 1] = 1; }
      else if (MN("fdivp") && small && a != 0 && (int32_t)b % (int32_t)a == 0) { m.st[m.x87 - 1] = (int32_t)b / (int32_t)a; m.st_int[m.x87 - 1] = 1; }
    }
    return;
  }
  if (MN("fadds")) { if (m.x87 < 1 || o1.kind != O_MEM) { m.bad = 1; return; }
    // used only by u64->f80: adds the float constant 2^64 (0x5f800000) to fix up a negative fild
    if ((uint32_t)gm_load(&o1, 4) == 0x5f800000u && m.st_int[m.x87 - 1] == 1) { m.st_int[m.x87 - 1] = 2; /* value = st + 2^64, tracked by tag 2 */ }
    else m.st_int[m.x87 - 1] = 0;
    return; }
  if (MN("fchs")) { if (m.x87 < 1) { m.bad = 1; return; } m.st_int[m.x87 - 1] = 0; return; }
  if (MN("fcomip") || MN("fucomip")) {   /* compare %st(0) with %st(1), set ZF/PF/CF, pop */
    if (m.x87 < 2) { m.bad = 1; return; }
    if (m.st_int[m.x87 - 1] == 3 || m.st_int[m.x87 - 2] == 3) gm_ucomi(1, 0, 0);                  /* a NaN operand: unordered */
    else if (m.st_int[m.x87 - 1] == 1 && m.st_int[m.x87 - 2] == 1) { int64_t a = m.st[m.x87 - 1], b = m.st[m.x87 - 2]; gm_ucomi(0, a < b, a == b); }
    else { m.flags_valid = 1; /* operands outside the integer-valued model: outcome arbitrary */ }
    m.x87--; return;
  }
  if (MN("fnstcw")) { if (o1.kind != O_MEM) { m.unknown = 1; return; } gm_store(&o1, 2, 0x037f); m.cw_saved = 1; return; }
  if (MN("fldcw")) { if (o1.kind != O_MEM) { m.unknown = 1; return; } m.cw_trunc = (gm_load(&o1, 2) & 0x0c00) == 0x0c00; return; }
  if (MN("rep")) {   /* rep stosb: store %al to [%rdi] %rcx times */
    if (!gm_streq(s + mlen + 1, n - mlen - 1, "stosb")) { m.unknown = 1; return; }
    uint64_t cnt = m.r[RCX];
    if (cnt > 64) { m.bad = 1; return; }
    for (uint64_t i = 0; i < 64; i++) { if (i >= cnt) break; GOp d; d.kind = O_MEM; d.reg = RDI; d.val = (long)i; gm_store(&d, 1, m.r[RAX] & 0xff); }
    m.r[RDI] += cnt; m.r[RCX] = 0;
    return;
  }
  m.unknown = 1;
}

// ---------------------------------------------------------------- rendering of println(fmt, ...)
// Fixed-arity entry point.  s0..s3 / i0..i3 are the variadic arguments in order (strings in s*, integers in i*).
static inline void gm_render(GLine *L, const char *fmt, const char *s0, long i0, const char *s1, long i1, const char *s2, long i2, const char *s3, long i3) {
  const char *sv[4] = {s0, s1, s2, s3};
  L->iv[0] = i0; L->iv[1] = i1; L->iv[2] = i2; L->iv[3] = i3;
  int n = 0, arg = 0;
  for (int i = 0; fmt[i]; i++) {
    if (n >= GM_LINE - 3) { m.unknown = 1; break; }
    char c = fmt[i];
    if (c == '#' && i > 0 && fmt[i - 1] == ' ') break;                /* trailing comment */
    if (c != '%') { L->t[n++] = c; continue; }
    i++;
    if (fmt[i] == '%') { L->t[n++] = '%'; continue; }
    if (fmt[i] == 's') { const char *a = arg < 4 ? sv[arg] : 0; arg++; if (!a) { m.unknown = 1; continue; } for (int k = 0; a[k]; k++) { if (n >= GM_LINE - 3) { m.unknown = 1; break; } L->t[n++] = a[k]; } continue; }
    // integer conversions: %d %u %ld %lu %+ld
    _Bool plus = 0;
    if (fmt[i] == '+') { plus = 1; i++; }
    if (fmt[i] == 'l') i++;
    if (fmt[i] == 'd' || fmt[i] == 'u') { if (plus) L->t[n++] = '+'; L->t[n++] = 1; L->t[n++] = (char)('0' + arg); arg++; continue; }
    if (fmt[i] == 'L' && fmt[i + 1] == 'f') { i++; arg++; continue; }
    m.unknown = 1;
  }
  while (n > 0 && L->t[n - 1] == ' ') n--;
  L->n = n;
}

static inline void verif_emit(const char *fmt, const char *s0, long i0, const char *s1, long i1, const char *s2, long i2, const char *s3, long i3) {
  GLine L;
  gm_render(&L, fmt, s0, i0, s1, i1, s2, i2, s3, i3);
  gm_exec_line(&L);
}

// Routing of the real println(...) calls (the definition is guarded out by CHIBICC_VERIF)
#define GM_VS(x) _Generic((x), char *: (x), const char *: (x), default: (char *)0)
#define GM_VI(x) _Generic((x), char *: 0L, const char *: 0L, long double: 0L, double: 0L, default: (long)(x))
#define GM_PL_(f, a, b, c, d, ...) verif_emit(f, GM_VS(a), GM_VI(a), GM_VS(b), GM_VI(b), GM_VS(c), GM_VI(c), GM_VS(d), GM_VI(d))
#define println(...) GM_PL_(__VA_ARGS__, 0L, 0L, 0L, 0L, 0L)

#endif
