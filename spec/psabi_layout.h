// System V x86-64 psABI 3.1.2 aggregate layout (+ GCC's documented bit-field rules), written independently of chibicc.
// A member descriptor: size/alignment of its declared type, bit-field flag/width, named or not.
#ifndef PSABI_LAYOUT_H
#define PSABI_LAYOUT_H
typedef struct { int size, align; _Bool is_bitfield; int width; _Bool named; } SpecMem;
typedef struct { int offset, bit_offset; } SpecPos;
static inline int spec_roundup(int n, int a) { return (n + a - 1) / a * a; }

// returns the struct size; pos[i] receives byte offset of the member (of its storage unit for bit-fields) and bit offset
static inline int spec_struct_layout(const SpecMem *mem, int n, _Bool packed, int attr_align, SpecPos *pos, int *out_align) {
  int bit = 0;                 /* next free bit */
  int align = attr_align;      /* aligned(n) attribute or 1 */
  for (int i = 0; i < n; i++) {
    int unit = mem[i].size * 8;
    if (mem[i].is_bitfield) {
      if (mem[i].width == 0) {
        bit = spec_roundup(bit, unit);                      /* zero width: next member starts at a unit boundary */
        pos[i].offset = 0; pos[i].bit_offset = 0;
      } else {
        if (bit / unit != (bit + mem[i].width - 1) / unit)   /* would straddle a unit of its declared type */
          bit = spec_roundup(bit, unit);
        pos[i].offset = bit / unit * mem[i].size;
        pos[i].bit_offset = bit % unit;
        bit += mem[i].width;
      }
      if (!mem[i].named) continue;                          /* unnamed bit-fields never affect alignment */
    } else {
      int a = packed ? 1 : mem[i].align;
      bit = spec_roundup(bit, a * 8);
      pos[i].offset = bit / 8; pos[i].bit_offset = 0;
      bit += unit;
    }
    if (!packed && mem[i].align > align) align = mem[i].align;
  }
  *out_align = align;
  return spec_roundup(bit, align * 8) / 8;
}
static inline int spec_union_layout(const SpecMem *mem, int n, int attr_align, int *out_align) {
  int align = attr_align, size = 0;
  for (int i = 0; i < n; i++) {
    if (mem[i].is_bitfield && !mem[i].named) continue;
    if (mem[i].align > align) align = mem[i].align;
    if (mem[i].size > size) size = mem[i].size;
  }
  *out_align = align;
  return spec_roundup(size, align);
}
#endif
