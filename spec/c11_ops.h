// C11 integer semantics, written from the standard (6.3.1.3 conversions, 6.5.x operators), independent of chibicc.
// Values are carried as int64_t "canonical representatives": the value of an object of integer type T is the
// int64_t obtained by sign- (signed T) or zero- (unsigned T, _Bool) extending its N-bit representation.
// LP64: char 8, short 16, int 32, long 64.
#ifndef C11_OPS_H
#define C11_OPS_H
#include <stdint.h>

typedef struct { int size; _Bool uns; _Bool is_bool; } SpecTy;   // size in bytes: 1,2,4,8

// 6.3.1.3 (+6.3.1.2 for _Bool): convert the mathematical value v (given mod 2^64) to type t
static inline int64_t spec_conv(SpecTy t, int64_t v) {
  if (t.is_bool) return v != 0;
  switch (t.size) {
  case 1: return t.uns ? (int64_t)(uint8_t)v : (int64_t)(int8_t)v;
  case 2: return t.uns ? (int64_t)(uint16_t)v : (int64_t)(int16_t)v;
  case 4: return t.uns ? (int64_t)(uint32_t)v : (int64_t)(int32_t)v;
  default: return v;
  }
}
static inline _Bool spec_canon(SpecTy t, int64_t v) { return spec_conv(t, v) == v && (!t.is_bool || v == 0 || v == 1); }

// does the mathematical integer v (held exactly in int64) fit type t?  (only meaningful for size < 8)
static inline _Bool spec_fits(SpecTy t, int64_t v) { return spec_conv(t, v) == v; }

// 6.3.1.1p2 integer promotion: everything of rank below int becomes int (all values fit LP64 int)
static inline SpecTy spec_promote(SpecTy t) {
  if (t.is_bool || t.size < 4) { SpecTy r = {4, 0, 0}; return r; }
  return t;
}
// 6.3.1.8 usual arithmetic conversions on promoted integer types
static inline SpecTy spec_uac(SpecTy a, SpecTy b) {
  a = spec_promote(a); b = spec_promote(b);
  SpecTy r;
  r.is_bool = 0;
  if (a.size != b.size) { r = a.size > b.size ? a : b; r.is_bool = 0; return r; }   // larger rank wins; if it is signed it can hold all values of the smaller
  r.size = a.size; r.uns = a.uns || b.uns;
  return r;
}

enum { OP_ADD, OP_SUB, OP_MUL, OP_DIV, OP_MOD, OP_AND, OP_OR, OP_XOR, OP_SHL, OP_SHR, OP_EQ, OP_NE, OP_LT, OP_LE,
       OP_NEG, OP_NOT, OP_BITNOT, OP_LOGAND, OP_LOGOR };

// Is `a op b` defined by C11 when both operands have (already converted) type t?   6.5.5p5, 6.5.7p3/4, 6.5p5
static inline _Bool spec_defined(int op, SpecTy t, int64_t a, int64_t b) {
  switch (op) {
  case OP_DIV: case OP_MOD:
    if (b == 0) return 0;
    if (!t.uns && t.size == 8 && a == INT64_MIN && b == -1) return 0;
    if (!t.uns && t.size == 4 && a == INT32_MIN && b == -1) return 0;
    return 1;
  case OP_ADD:
    if (t.uns) return 1;
    if (t.size == 8) return !__builtin_add_overflow_p(a, b, (int64_t)0);
    return spec_fits(t, a + b);
  case OP_SUB:
    if (t.uns) return 1;
    if (t.size == 8) return !__builtin_sub_overflow_p(a, b, (int64_t)0);
    return spec_fits(t, a - b);
  case OP_MUL:
#ifdef SPEC_MUL_TOTAL
    // Optional strengthening used where the solver cannot afford a 128-bit overflow predicate: treat signed
    // multiplication as total with two's-complement wrap-around.  Every C11-defined case is included, so an
    // obligation proved under this definition implies the C11 one.
    return 1;
#endif
    if (t.uns) return 1;
    if (t.size == 8) return !__builtin_mul_overflow_p(a, b, (int64_t)0);
    return spec_fits(t, a * b);
  case OP_NEG:
    if (t.uns) return 1;
    return t.size == 8 ? a != INT64_MIN : a != INT32_MIN;
  default: return 1;
  }
}

// value of `a op b` (arithmetic / bitwise) where a, b are canonical in t and the result has type t.
// Computed over mathematical integers (held mod 2^64) and converted to t: for unsigned t this is 6.2.5p9 (reduce
// modulo 2^N); for signed t the result is only used where spec_defined() says it is representable.
static inline int64_t spec_arith(int op, SpecTy t, int64_t a, int64_t b) {
  uint64_t ua = (uint64_t)a, ub = (uint64_t)b;
  switch (op) {
  case OP_ADD: return spec_conv(t, (int64_t)(ua + ub));
  case OP_SUB: return spec_conv(t, (int64_t)(ua - ub));
  case OP_MUL: return spec_conv(t, a * b);   /* product mod 2^64 (two's complement wrap), then reduced to t */
  case OP_DIV: return t.uns ? spec_conv(t, (int64_t)(ua / ub)) : spec_conv(t, a / b);
  case OP_MOD: return t.uns ? spec_conv(t, (int64_t)(ua % ub)) : spec_conv(t, a % b);
  case OP_AND: return a & b;
  case OP_OR: return a | b;
  case OP_XOR: return a ^ b;
  case OP_NEG: return spec_conv(t, (int64_t)(0 - ua));
  case OP_BITNOT: return spec_conv(t, ~a);
  }
  return 0;
}
// comparison of two canonical values of type t; result type int
static inline int64_t spec_cmp(int op, SpecTy t, int64_t a, int64_t b) {
  switch (op) {
  case OP_EQ: return a == b;
  case OP_NE: return a != b;
  case OP_LT: return t.uns ? (uint64_t)a < (uint64_t)b : a < b;   // canonical zero-extended values compare like the originals
  case OP_LE: return t.uns ? (uint64_t)a <= (uint64_t)b : a <= b;
  }
  return 0;
}
// 6.5.7: a has promoted type t (result type t); count c is any canonical integer value; defined iff 0 <= c < width
// and, for signed left shift, a >= 0 and a * 2^c representable
static inline _Bool spec_shift_defined(int op, SpecTy t, int64_t a, int64_t c) {
  int w = t.size * 8;
  if (c < 0 || c >= w) return 0;
  if (op == OP_SHL && !t.uns) {
    if (a < 0) return 0;
    // a << c must fit: a <= MAX >> c
    int64_t mx = t.size == 8 ? INT64_MAX : INT32_MAX;
    return a <= (mx >> c);
  }
  return 1;
}
static inline int64_t spec_shift(int op, SpecTy t, int64_t a, int64_t c) {
  if (op == OP_SHL) return spec_conv(t, (int64_t)((uint64_t)a << c));
  // right shift: unsigned -> logical on the N-bit value (canonical zero-extended: same as 64-bit logical);
  // signed -> arithmetic (implementation-defined in C11 6.5.7p5; gcc/x86-64 psABI compilers use arithmetic shift)
  if (t.uns) return (int64_t)((uint64_t)a >> c);
  return a >> c;
}
#endif
