// Common harness vocabulary.  Two compilation modes:
//   (default)        goto-cc / CBMC: inputs are nondeterministic, obligations are assertions
//   -DVERIF_NATIVE   gcc: inputs come from the replay file ($VERIF_REPLAY_INPUTS, "name=value" lines),
//                    obligations are run-time checks printed as "REPLAY-FAIL <name>"
#ifndef VERIF_H
#define VERIF_H

#ifdef VERIF_NATIVE
#include <stdio.h>
#include <stdlib.h>
#include <string.h>
static long long verif_input_ll(const char *name) {
  const char *p = getenv("VERIF_REPLAY_INPUTS");
  if (!p) { fprintf(stderr, "no VERIF_REPLAY_INPUTS\n"); exit(4); }
  FILE *f = fopen(p, "r");
  if (!f) { fprintf(stderr, "cannot open %s\n", p); exit(4); }
  char line[512];
  size_t n = strlen(name);
  while (fgets(line, sizeof line, f)) {
    if (!strncmp(line, name, n) && line[n] == '=') {
      fclose(f);
      if (line[n + 1] == '-') return strtoll(line + n + 1, 0, 0);
      return (long long)strtoull(line + n + 1, 0, 0);
    }
  }
  fclose(f);
  return 0; /* input not in the trace: irrelevant to the failure */
}
static int verif_fail_count;
#define IN(T, n) T n = (T)verif_input_ll(#n)
#define ASSUME(c) do { if (!(c)) { printf("REPLAY-ASSUMPTION-FALSE %s\n", #c); exit(3); } } while (0)
#define OBLIGE(c, msg) do { if (!(c)) { printf("REPLAY-FAIL %s\n", msg); verif_fail_count++; } else printf("REPLAY-OK %s\n", msg); } while (0)
#define REACH(tag) do { } while (0)
#define NOTE(msg) do { printf("REPLAY-NOTE %s\n", msg); fflush(stdout); } while (0)
#define __CPROVER_assume(c) ASSUME(c)
#define __CPROVER_assert(c, msg) OBLIGE(c, msg)
#define __CPROVER_requires(...)
#define __CPROVER_ensures(...)
#define __CPROVER_assigns(...)
#define VERIF_MAIN int main(void) { harness(); return verif_fail_count ? 1 : 0; }
#else
#define IN(T, n) T nondet_##n(void); T n = nondet_##n()
#define NOTE(msg) ((void)0)
#define ASSUME(c) __CPROVER_assume(c)
#define OBLIGE(c, msg) __CPROVER_assert(c, "OBL:" msg)
// Reachability witness: must FAIL (i.e. be reachable).  The driver treats a *passing* REACH as vacuity.
#define REACH(tag) __CPROVER_assert(0, "REACH:" tag)
#define VERIF_MAIN
#endif

#endif
