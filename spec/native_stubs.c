// linked into native replays only: weak stand-ins for the globals/functions that live in main.c
#include <stdbool.h>
#include <stdio.h>
typedef struct { char **data; int capacity; int len; } StringArray_;
__attribute__((weak)) StringArray_ include_paths;
__attribute__((weak)) bool opt_fcommon = true;
__attribute__((weak)) bool opt_fpic;
__attribute__((weak)) char *base_file;
__attribute__((weak)) bool file_exists(char *path) { FILE *f = fopen(path, "r"); if (!f) return false; fclose(f); return true; }
