// linked into native replays only: nothing needed yet (the harness includes the real units)
