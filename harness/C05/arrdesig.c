// C05.2 / C13  array designators: real parse.c array_designator on the token shapes `[ a ]` and `[ a ... b ]` with
// symbolic 64-bit constant values (const_expr is a stand-in stub that yields them and consumes one token).
// It returns only for 0 <= begin <= end < array length; everything else must be diagnosed (never used as a subscript).
#include "verif.h"
#include "parse.c"
Token T[8]; long V[2]; int g_calls;
bool equal(Token *tok, char *op) { int i = (int)(tok - T); return i >= 0 && i < 8 && T[i].loc != 0 && !strcmp(T[i].loc, op); }
Token *skip(Token *tok, char *op) { if (!equal(tok, op)) { ASSUME(0); } return tok->next; }
int64_t stub_const_expr(Token **rest, Token *tok) { *rest = tok->next; return V[g_calls++ < 1 ? 0 : 1]; }
long nondet_long_(void); int nondet_int_(void);
void harness(void) {
  static char *txt_range[] = {"[", "a", "...", "b", "]", ";"}, *txt_one[] = {"[", "a", "]", ";", ";", ";"};
  Type ty = {TY_ARRAY, 0, 4}; int begin = -7, end = -7; Token *rest = 0;
  int len = nondet_int_(); ASSUME(1 <= len && len <= 100000);
  ty.array_len = len;
  V[0] = nondet_long_(); V[1] = nondet_long_(); g_calls = 0;
  for (int i = 0; i < 6; i++) { T[i] = (Token){0}; T[i].loc = RANGE ? txt_range[i] : txt_one[i]; T[i].len = (int)strlen(T[i].loc); T[i].next = &T[i + 1]; }
  array_designator(&rest, &T[0], &ty, &begin, &end);
  REACH("returns for valid designators");
  long lo = V[0], hi = RANGE ? V[1] : V[0];
  OBLIGE(0 <= lo && lo <= hi && hi < len, "C05.2 a designator is accepted only if 0 <= first <= last < array length (as 64-bit values)");
  OBLIGE(begin == lo && end == hi, "C05.2 the designated element range is exactly [first, last]");
  OBLIGE(rest == &T[RANGE ? 5 : 3], "C05.2 the designator's tokens are consumed up to and including ']'");
}
