// C05.1  initializers: the real parse.c initializer machinery (initializer, initializer2, designation, array/struct/union
// initializer1/2, array_designator, struct_designator, string_initializer, count_array_init_elements, new_initializer) on
// CONCRETE initializer shapes whose leaf VALUES are symbolic, followed by both back ends:
//   static storage:    write_gvar_data  -> byte image
//   automatic storage: create_lvar_init -> assignment chain, interpreted here on a zeroed object (after ND_MEMZERO)
// Both images must equal the image C11 6.7.9 prescribes for the shape (written out per scenario below): named leaves get
// their (converted) value, everything else is zero.  Leaf expressions come from a stand-in stub for `assign`
// (token "vK" -> integer constant node with the symbolic value V[K]); array designators are digit tokens.
#include "verif.h"
#include "parse.c"
#define NT 40
Token T[NT]; int64_t V[8];
static char *TXT[NT];
bool equal(Token *tok, char *op) { int i = (int)(tok - T); return i >= 0 && i < NT && TXT[i] != 0 && T[i].kind != TK_STR && !strcmp(TXT[i], op); }
Token *skip(Token *tok, char *op) { if (!equal(tok, op)) { ASSUME(0); } return tok->next; }
bool consume(Token **rest, Token *tok, char *str) { if (equal(tok, str)) { *rest = tok->next; return 1; } *rest = tok; return 0; }
static Node NUMS[16]; static int nnum;
Node *stub_assign(Token **rest, Token *tok) {
  int i = (int)(tok - T);
  if (i < 0 || i >= NT || !TXT[i] || TXT[i][0] != 'v') { OBLIGE(0, "C05.1 a valid initializer is accepted (an expression is only expected where one stands)"); ASSUME(0); }
  Node *n = &NUMS[nnum < 15 ? nnum++ : 15];
  *n = (Node){0}; n->kind = ND_NUM; n->val = V[TXT[i][1] - '0']; n->ty = (SCEN == 13) ? ty_long : ty_int; n->tok = tok;   /* 64-bit leaves where the fields are wider than int */
  *rest = tok->next; return n;
}
int64_t stub_const_expr(Token **rest, Token *tok) { int i = (int)(tok - T); *rest = tok->next; return TXT[i][0] - '0'; }
// every scenario is a valid initializer: reaching a diagnostic is itself a failure
void error_tok(Token *tok, char *fmt, ...) { OBLIGE(0, "C05.1 a valid initializer is accepted (not diagnosed)"); ASSUME(0); }
long nondet_long_(void);

// ---- interpreter for the automatic-storage assignment chain
static unsigned char IMG2[64];
static long lval_addr(Node *n);
static long rval(Node *n) {
  if (n->kind == ND_NUM) return (n->ty && n->ty->kind == TY_INT) ? (long)(int)n->val : n->val;    /* a constant of type int denotes its 32-bit value */
  if (n->kind == ND_MUL) return rval(n->lhs) * rval(n->rhs);
  if (n->kind == ND_ADD) return rval(n->lhs) + rval(n->rhs);
  if (n->kind == ND_CAST) {        /* the conversion add_type inserts for an assignment (integer leaves only) */
    long v = rval(n->lhs);
    if (n->ty->kind == TY_BOOL) return v != 0;
    if (n->ty->size == 1) return n->ty->is_unsigned ? (long)(unsigned char)v : (long)(signed char)v;
    if (n->ty->size == 2) return n->ty->is_unsigned ? (long)(unsigned short)v : (long)(short)v;
    if (n->ty->size == 4 && n->ty->kind != TY_PTR) return n->ty->is_unsigned ? (long)(unsigned)v : (long)(int)v;
    return v;
  }
  return lval_addr(n);          /* an array-typed lvalue used as a pointer */
}
static long lval_addr(Node *n) {
  if (n->kind == ND_VAR) return 0;
  if (n->kind == ND_MEMBER) return lval_addr(n->lhs) + n->member->offset;
  if (n->kind == ND_DEREF) return rval(n->lhs);
  ASSUME(0); return 0;
}
static void run(Node *n) {
  if (!n || n->kind == ND_NULL_EXPR || n->kind == ND_MEMZERO) return;
  if (n->kind == ND_COMMA) { run(n->lhs); run(n->rhs); return; }
  if (n->kind == ND_ASSIGN) {
    add_type(n);                      /* inserts the conversion of the right-hand side to the object's type */
    long a = lval_addr(n->lhs); int sz = n->lhs->ty->size; uint64_t v = (uint64_t)rval(n->rhs);
    if (n->lhs->kind == ND_MEMBER && n->lhs->member->is_bitfield) {
      Member *mb = n->lhs->member; uint64_t unit = 0, mask = (1UL << mb->bit_width) - 1;
      for (int i = 0; i < sz; i++) unit |= (uint64_t)IMG2[a + i] << (8 * i);
      unit = (unit & ~(mask << mb->bit_offset)) | ((v & mask) << mb->bit_offset);
      for (int i = 0; i < sz; i++) IMG2[a + i] = (unsigned char)(unit >> (8 * i));
    } else for (int i = 0; i < sz; i++) IMG2[a + i] = (unsigned char)(v >> (8 * i));
    return;
  }
  ASSUME(0);
}
// ---- expected image helpers
static unsigned char WANT[64];
static void put(int off, int sz, uint64_t v) { for (int i = 0; i < sz; i++) WANT[off + i] = (unsigned char)(v >> (8 * i)); }
static Member *mkmem(Member *m, int idx, Type *ty, int off, char *name, Token *nt) { *m = (Member){0}; m->ty = ty; m->idx = idx; m->offset = off; m->align = ty->align; nt->loc = name; nt->len = (int)strlen(name); m->name = nt; return m; }

void harness(void) {
  for (int i = 0; i < 8; i++) V[i] = nondet_long_();
  static Member M[6]; static Token MN[6]; static Type ST, ST2; Type *ty; int size;
  for (int i = 0; i < 64; i++) { WANT[i] = 0; IMG2[i] = 0; }
  nnum = 0;
#if SCEN == 0      /* int a[4] = { v0, [2] = v1, v2 } */
  static char *txt[] = {"{", "v0", ",", "[", "2", "]", "=", "v1", ",", "v2", "}", ";"};
  ty = array_of(ty_int, 4); size = 16; put(0, 4, V[0]); put(8, 4, V[1]); put(12, 4, V[2]);
#elif SCEN == 1    /* struct { int x; char y; int z[2]; } = { .z = { v0 }, .x = v1 } */
  static char *txt[] = {"{", ".", "z", "=", "{", "v0", "}", ",", ".", "x", "=", "v1", "}", ";"};
  mkmem(&M[0], 0, ty_int, 0, "x", &MN[0]); mkmem(&M[1], 1, ty_char, 4, "y", &MN[1]); mkmem(&M[2], 2, array_of(ty_int, 2), 8, "z", &MN[2]); M[0].next = &M[1]; M[1].next = &M[2];
  ST = (Type){TY_STRUCT, 16, 4}; ST.members = M; ty = &ST; size = 16; put(8, 4, V[0]); put(0, 4, V[1]);
#elif SCEN == 2    /* struct { int a[2]; int b; } t[2] = { v0, v1, v2, v3 }   (brace elision) */
  static char *txt[] = {"{", "v0", ",", "v1", ",", "v2", ",", "v3", "}", ";"};
  mkmem(&M[0], 0, array_of(ty_int, 2), 0, "a", &MN[0]); mkmem(&M[1], 1, ty_int, 8, "b", &MN[1]); M[0].next = &M[1];
  ST = (Type){TY_STRUCT, 12, 4}; ST.members = M; ty = array_of(&ST, 2); size = 24; put(0, 4, V[0]); put(4, 4, V[1]); put(8, 4, V[2]); put(12, 4, V[3]);
#elif SCEN == 3    /* union { int i; short f; } = { .f = v0 } */
  static char *txt[] = {"{", ".", "f", "=", "v0", "}", ";"};
  mkmem(&M[0], 0, ty_int, 0, "i", &MN[0]); mkmem(&M[1], 1, ty_short, 0, "f", &MN[1]); M[0].next = &M[1];
  ST = (Type){TY_UNION, 4, 4}; ST.members = M; ty = &ST; size = 4; put(0, 2, V[0]);
#elif SCEN == 4    /* struct { int a:3; int b:5; int c; int d:4; int e; } = { v0, v1, .e = v2 }  (d, c not initialised) */
  static char *txt[] = {"{", "v0", ",", "v1", ",", ".", "e", "=", "v2", "}", ";"};
  mkmem(&M[0], 0, ty_int, 0, "a", &MN[0]); M[0].is_bitfield = 1; M[0].bit_offset = 0; M[0].bit_width = 3;
  mkmem(&M[1], 1, ty_int, 0, "b", &MN[1]); M[1].is_bitfield = 1; M[1].bit_offset = 3; M[1].bit_width = 5;
  mkmem(&M[2], 2, ty_int, 4, "c", &MN[2]);
  mkmem(&M[3], 3, ty_int, 8, "d", &MN[3]); M[3].is_bitfield = 1; M[3].bit_offset = 0; M[3].bit_width = 4;
  mkmem(&M[4], 4, ty_int, 12, "e", &MN[4]);
  M[0].next = &M[1]; M[1].next = &M[2]; M[2].next = &M[3]; M[3].next = &M[4];
  ST = (Type){TY_STRUCT, 16, 4}; ST.members = M; ty = &ST; size = 16; put(0, 4, (V[0] & 7) | ((V[1] & 31) << 3)); put(12, 4, V[2]);
#elif SCEN == 5    /* int a[] = { v0, [3] = v1 }   (length from the largest designator) */
  static char *txt[] = {"{", "v0", ",", "[", "3", "]", "=", "v1", "}", ";"};
  ty = array_of(ty_int, -1); ty->size = -1; size = 16; put(0, 4, V[0]); put(12, 4, V[1]);
#elif SCEN == 6    /* struct { int m[3]; } w[2] = { [1].m[2] = v0 } */
  static char *txt[] = {"{", "[", "1", "]", ".", "m", "[", "2", "]", "=", "v0", "}", ";"};
  mkmem(&M[0], 0, array_of(ty_int, 3), 0, "m", &MN[0]);
  ST = (Type){TY_STRUCT, 12, 4}; ST.members = M; ty = array_of(&ST, 2); size = 24; put(12 + 8, 4, V[0]);
#elif SCEN == 8    /* int a[2][4] = { [0][1 ... 2] = v0, v1 }   (range designator at a nested level: the cursor resumes after the range) */
  static char *txt[] = {"{", "[", "0", "]", "[", "1", "...", "2", "]", "=", "v0", ",", "v1", "}", ";"};
  ty = array_of(array_of(ty_int, 4), 2); size = 32; put(4, 4, V[0]); put(8, 4, V[0]); put(12, 4, V[1]);
#elif SCEN == 9    /* struct { int x; struct { int a, b, c; } in; int y; } = { .in.b = v0, v1, v2 }   (positional elements continue after a nested designator) */
  static char *txt[] = {"{", ".", "in", ".", "b", "=", "v0", ",", "v1", ",", "v2", "}", ";"};
  static Member MI[3]; static Token MIN[3];
  mkmem(&MI[0], 0, ty_int, 0, "a", &MIN[0]); mkmem(&MI[1], 1, ty_int, 4, "b", &MIN[1]); mkmem(&MI[2], 2, ty_int, 8, "c", &MIN[2]); MI[0].next = &MI[1]; MI[1].next = &MI[2];
  ST2 = (Type){TY_STRUCT, 12, 4}; ST2.members = MI;
  mkmem(&M[0], 0, ty_int, 0, "x", &MN[0]); mkmem(&M[1], 1, &ST2, 4, "in", &MN[1]); mkmem(&M[2], 2, ty_int, 16, "y", &MN[2]); M[0].next = &M[1]; M[1].next = &M[2];
  ST = (Type){TY_STRUCT, 20, 4}; ST.members = M; ty = &ST; size = 20; put(8, 4, V[0]); put(12, 4, V[1]); put(16, 4, V[2]);
#elif SCEN == 10   /* struct { int p:3; int :5; int q:4; int r; } = { v0, v1, v2 }   (6.7.9p9: unnamed members take no initializer) */
  static char *txt[] = {"{", "v0", ",", "v1", ",", "v2", "}", ";"};
  mkmem(&M[0], 0, ty_int, 0, "p", &MN[0]); M[0].is_bitfield = 1; M[0].bit_offset = 0; M[0].bit_width = 3;
  mkmem(&M[1], 1, ty_int, 0, "", &MN[1]); M[1].name = 0; M[1].is_bitfield = 1; M[1].bit_offset = 3; M[1].bit_width = 5;
  mkmem(&M[2], 2, ty_int, 1, "q", &MN[2]); M[2].is_bitfield = 1; M[2].bit_offset = 0; M[2].bit_width = 4;
  mkmem(&M[3], 3, ty_int, 4, "r", &MN[3]);
  M[0].next = &M[1]; M[1].next = &M[2]; M[2].next = &M[3];
  ST = (Type){TY_STRUCT, 8, 4}; ST.members = M; ty = &ST; size = 8; put(0, 1, V[0] & 7); put(1, 1, V[1] & 15); put(4, 4, V[2]);
#elif SCEN == 11   /* int a[6] = { [1 ... 2] = v0, v1 }   (range designator at the top level, then a positional element) */
  static char *txt[] = {"{", "[", "1", "...", "2", "]", "=", "v0", ",", "v1", "}", ";"};
  ty = array_of(ty_int, 6); size = 24; put(4, 4, V[0]); put(8, 4, V[0]); put(12, 4, V[1]);
#elif SCEN == 12   /* char a[8] = "......" : a 6-byte string literal with ARBITRARY bytes (embedded NULs included) */
  static char *txt[] = {"S", ";"};
  static char SB[6]; for (int i = 0; i < 6; i++) { SB[i] = (char)V[i]; put(i, 1, (unsigned char)V[i]); }
  ty = array_of(ty_char, 8); size = 8;
#elif SCEN == 13   /* struct { unsigned long a:33; long b:20; } = { v0, v1 }   (bit-fields wider than 32 bits) */
  static char *txt[] = {"{", "v0", ",", "v1", "}", ";"};
  mkmem(&M[0], 0, ty_ulong, 0, "a", &MN[0]); M[0].is_bitfield = 1; M[0].bit_offset = 0; M[0].bit_width = 33;
  mkmem(&M[1], 1, ty_long, 0, "b", &MN[1]); M[1].is_bitfield = 1; M[1].bit_offset = 33; M[1].bit_width = 20;
  M[0].next = &M[1];
  ST = (Type){TY_STRUCT, 8, 8}; ST.members = M; ty = &ST; size = 8; put(0, 8, ((uint64_t)V[0] & 0x1ffffffffUL) | (((uint64_t)V[1] & 0xfffffUL) << 33));
#elif SCEN == 14   /* struct { _Bool x; char y; _Bool z; } = { v0, v1, v2 }   (conversion to the member type: _Bool is a test against zero) */
  static char *txt[] = {"{", "v0", ",", "v1", ",", "v2", "}", ";"};
  mkmem(&M[0], 0, ty_bool, 0, "x", &MN[0]); mkmem(&M[1], 1, ty_char, 1, "y", &MN[1]); mkmem(&M[2], 2, ty_bool, 2, "z", &MN[2]); M[0].next = &M[1]; M[1].next = &M[2];
  ST = (Type){TY_STRUCT, 3, 1}; ST.members = M; ty = &ST; size = 3; put(0, 1, (int)V[0] != 0); put(1, 1, (uint64_t)V[1]); put(2, 1, (int)V[2] != 0);
#else              /* int a[2][2] = { { v0 }, v1, v2 }   (mixed braces / elision) */
  static char *txt[] = {"{", "{", "v0", "}", ",", "v1", ",", "v2", "}", ";"};
  ty = array_of(array_of(ty_int, 2), 2); size = 16; put(0, 4, V[0]); put(8, 4, V[1]); put(12, 4, V[2]);
#endif
  int ntok = (int)(sizeof(txt) / sizeof(txt[0]));
  for (int i = 0; i < NT; i++) { TXT[i] = i < ntok ? txt[i] : ";"; T[i] = (Token){0}; T[i].kind = ((TXT[i][0] >= 'a' && TXT[i][0] <= 'z') || (TXT[i][0] >= '0' && TXT[i][0] <= '9')) ? TK_IDENT : TK_PUNCT; T[i].loc = TXT[i]; T[i].len = (int)strlen(TXT[i]);
#if SCEN == 12
    if (TXT[i][0] == 'S') { T[i].kind = TK_STR; T[i].str = SB; T[i].ty = array_of(ty_char, 6); }
#endif
    T[i].next = i + 1 < NT ? &T[i + 1] : &T[i]; }
  Token *rest = 0; Type *newty = 0;
  Initializer *init = initializer(&rest, &T[0], ty, &newty);
  REACH("initializer returns");
  OBLIGE(rest == &T[ntok - 1], "C05.1 the initializer consumes exactly its tokens");
  OBLIGE(newty->size == size, "C05.1 the object has the size the initializer determines (arrays of unknown bound)");
  // static storage
  static char buf[64]; for (int i = 0; i < 64; i++) buf[i] = 0;
  Relocation head = {0};
  write_gvar_data(&head, init, newty, buf, 0);
  _Bool ok1 = 1; for (int i = 0; i < 64; i++) ok1 &= (_Bool)((i >= size) | ((unsigned char)buf[i] == WANT[i]));   /* branch-free: paths are explored one by one */
  OBLIGE(ok1, "C05.1 static storage: the data image gives every initialised member its value and leaves every other byte zero");
  // automatic storage
  Obj var = {0}; var.ty = newty; var.is_local = 1; var.name = "x";
  InitDesg desg = {0, 0, 0, &var};
  Node *chain = create_lvar_init(init, newty, &desg, &T[0]);
  run(chain);
  _Bool ok2 = 1; for (int i = 0; i < 64; i++) ok2 &= (_Bool)((i >= size) | (IMG2[i] == WANT[i]));
  OBLIGE(ok2, "C05.1 automatic storage: zero fill followed by the assignment chain yields the same object value");
}
