from engine.core import Job
META = dict(
    level="other",
    claim="The real initializer machinery (brace elision, nested and out-of-order designators, array index designators, unions, bit-fields, arrays of unknown bound) is run on fifteen concrete initializer shapes with symbolic leaf values, and BOTH back ends (static data image by write_gvar_data, automatic assignment chain by create_lvar_init after zero fill) are shown to produce exactly the C11 6.7.9 object image of the shape for all values; array designators are accepted only inside the array (any 64-bit value).",
    note="Bounded: the shapes are a chosen list (per-shape proofs over all leaf values), so the quantifier over initializers is sampled, not closed. Stand-in stubs: assign (yields an integer constant node carrying the symbolic leaf value), const_expr (designator digits); equal/skip/consume are ghost token predicates. Not covered: string literals of every encoding, address constants/relocations, flexible struct members, struct-valued initializer expressions, emit_data (see C15).",
    functions=["parse.c:initializer", "parse.c:initializer2", "parse.c:designation", "parse.c:array_initializer1", "parse.c:array_initializer2", "parse.c:struct_initializer1", "parse.c:struct_initializer2", "parse.c:union_initializer",
               "parse.c:array_designator", "parse.c:struct_designator", "parse.c:count_array_init_elements", "parse.c:new_initializer", "parse.c:write_gvar_data", "parse.c:create_lvar_init", "parse.c:init_desg_expr", "parse.c:write_buf", "parse.c:read_buf"],
    trusted_base=["CBMC 6.11", "the per-scenario expected images in harness/C05/init.c (written from C11 6.7.9)"],
    assumptions=["assign/const_expr stand-in stubs", "ghost token predicates"],
    explanation="per-shape proofs over symbolic leaf values on the real initializer code (shape list bounded)",
)
CUT = ["error", "error_tok", "error_at", "verror_at", "warn_tok"]
SCEN = ["int a[4] = {v0, [2]=v1, v2}", "struct{int x;char y;int z[2];} = {.z={v0}, .x=v1}", "struct{int a[2];int b;} t[2] = {v0,v1,v2,v3}", "union{int i;short f;} = {.f=v0}",
        "struct{int a:3;int b:5;int c;int d:4;int e;} = {v0,v1,.e=v2}", "int a[] = {v0, [3]=v1}", "struct{int m[3];} w[2] = {[1].m[2]=v0}", "int a[2][2] = {{v0}, v1, v2}",
        "int a[2][4] = {[0][1 ... 2]=v0, v1}", "struct{int x;struct{int a,b,c;} in;int y;} = {.in.b=v0, v1, v2}", "struct{int p:3;int :5;int q:4;int r;} = {v0,v1,v2}",
        "int a[6] = {[1 ... 2]=v0, v1}", "char a[8] = <6-byte string literal with arbitrary bytes>", "struct{unsigned long a:33;long b:20;} = {v0,v1}", "struct{_Bool x;char y;_Bool z;} = {v0,v1,v2}"]
def jobs(tier):
    js = []
    for i, d in enumerate(SCEN):
        js.append(Job(name=f"init-shape{i}", src="init.c", group="C05.1 initializer shapes", defs={"SCEN": str(i)}, mode="plain", cut=[c for c in CUT if c != "error_tok"], units=["type.c", "codegen.c", "hashmap.c", "strings.c"],
                      redirect={"assign": "stub_assign", "const_expr": "stub_const_expr"}, cbmc_flags=["--paths lifo"], havoc=["format"], cut_defined=["rehash"], unwind=70, timeout=600, replay=None,
                      bounded="concrete initializer shape, symbolic leaf values", sample=d))
    for r in (0, 1):
        js.append(Job(name=f"arrdesig-{'range' if r else 'one'}", src="arrdesig.c", group="C05.2 designator bounds", defs={"RANGE": str(r)}, mode="plain", cut=CUT, units=["type.c"],
                      redirect={"const_expr": "stub_const_expr"}, cbmc_flags=["--paths lifo"], timeout=300, replay=None, unwind=8, bounded="token shape", sample="array designator with any 64-bit value"))
    return js
