// C17  the real hashmap.c against a dictionary: one-step inductive obligations from an ARBITRARY well-formed
// table state (any mix of empty slots, tombstones and live keys, any hash values => every collision and
// probe-overlap pattern), so the history that produced the state is irrelevant (induction over histories).
// fnv_hash is replaced by a ghost table: each pool key has an arbitrary 64-bit hash (assumption: fnv_hash is a
// deterministic function of the key bytes; its own loop is proved separately in job fnv).
#include "verif.h"
#include "hashmap.c"
#ifndef CAP
#define CAP 4
#endif
#define NK 3
static char pool[NK][2] = {"a", "b", "c"};
uint64_t ghash[NK];
static int kid(char *k) { return k[0] == 'a' ? 0 : k[0] == 'b' ? 1 : 2; }
static uint64_t fnv_hash(char *s, int len)
__CPROVER_requires(len == 1)
__CPROVER_assigns()
__CPROVER_ensures(__CPROVER_return_value == ghash[kid(s)]);
HashEntry B[CAP]; HashMap M;
#if OPN == 3 && !defined(CONCRETE_STATE)
// rehash is only ever entered for the table itself: the put it performs on the freshly sized copy must never
// need another rehash.  Stated as the precondition of the recursive contract, so an inner call fails it.
static void rehash(HashMap *map)
__CPROVER_requires(map == &M)
__CPROVER_assigns(*map)
__CPROVER_ensures(1);
#endif
static _Bool live(HashEntry *e) { return e->key && e->key != TOMBSTONE; }
// abstract view: slot holding key id (or -1) in table (bk, cap)
static int slot_of(HashEntry *bk, int cap, int id) {
  for (int i = 0; i < cap; i++) if (live(&bk[i]) && bk[i].keylen == 1 && kid(bk[i].key) == id) return i;
  return -1;
}
static uint64_t H(int id) {
#ifdef REAL_HASH
  return fnv_hash(pool[id], 1);
#else
  return ghash[id];
#endif
}
// representation invariant
static _Bool wf(HashMap *mp) {
  HashEntry *bk = mp->buckets; int cap = mp->capacity;
  int used = 0;
  for (int i = 0; i < cap; i++) {
    if (bk[i].key) used++;
    if (live(&bk[i])) {
      if (bk[i].keylen != 1) return 0;
      int id = kid(bk[i].key);
      if (bk[i].key != pool[id]) return 0;
      for (int j = 0; j < i; j++) if (live(&bk[j]) && kid(bk[j].key) == id) return 0;     /* no duplicate live key */
      for (int d = 0; d < cap; d++) { int p = (int)((H(id) + d) % cap); if (p == i) break; if (!bk[p].key) return 0; }   /* reachable from its home slot */
    }
  }
  return mp->used == used && used < cap;
}
static void any_state(void) {
  for (int i = 0; i < CAP; i++) {
    int c = nondet_int_();
#ifdef SHAPE
    { static const int sh[CAP] = SHAPE; c = sh[i]; }      /* concrete slot kinds per job: the number of live keys, hence the capacity rehash picks, is a constant */
#endif
#ifdef CONCRETE_STATE
    /* slot kinds are concretised path by path (cbmc --paths lifo): the number of live keys, hence the capacity rehash picks, is then a constant on every path */
    switch (c) { case 0: c = 0; break; case 1: c = 1; break; case 2: c = 2; break; case 3: c = 3; break; default: c = 4; break; }
#endif
    B[i].key = c == 0 ? 0 : c == 1 ? (char *)TOMBSTONE : c == 2 ? pool[0] : c == 3 ? pool[1] : pool[2];
    B[i].keylen = 1;
    B[i].val = nondet_ptr_();
  }
  M.buckets = B; M.capacity = CAP; M.used = nondet_int_();
#ifdef CONCRETE_STATE
  { int u = 0; for (int i = 0; i < CAP; i++) if (B[i].key) u++; M.used = u; }
#endif
  // only hash % capacity (and the probe offsets) matter: restricting the hash to 10 bits keeps every residue and every
  // collision pattern while sparing the solver a 64-bit modulo (wrap-around of hash + i at 2^64 is thereby not covered)
  for (int i = 0; i < NK; i++) { ghash[i] = nondet_u64_(); ASSUME(ghash[i] < 1024); }
  ASSUME(wf(&M));
}
#ifdef VERIF_NATIVE
#error "native replay of an abstract table state is done by the history replayer (plan.replay_hook)"
#endif
int nondet_int_(void); void *nondet_ptr_(void); uint64_t nondet_u64_(void);

void harness(void) {
  any_state();
  IN(int, id); ASSUME(0 <= id && id < NK);
  IN(int, other); ASSUME(0 <= other && other < NK && other != id);
  int so = slot_of(B, CAP, other); void *vo = so >= 0 ? B[so].val : 0;
  int sk = slot_of(B, CAP, id); void *vk = sk >= 0 ? B[sk].val : 0;
  REACH("well-formed states exist");
#if OPN == 0   /* get */
  void *r = hashmap_get2(&M, pool[id], 1);
  REACH("returns");
  OBLIGE(r == vk, "C17 get returns the value bound to the key, NULL if the key is absent");
#elif OPN == 1 /* put, below the high watermark (rehash path is obligation 3) */
  ASSUME((M.used * 100) / M.capacity < 70);
  void *v = nondet_ptr_();
  hashmap_put2(&M, pool[id], 1, v);
  REACH("returns");
  OBLIGE(M.buckets == B && M.capacity == CAP, "C17 put without rehash keeps the table");
  OBLIGE(wf(&M), "C17 put preserves the representation invariant (no duplicate live key, probe chains intact, used exact and below capacity)");
  int s2 = slot_of(B, CAP, id);
  OBLIGE(s2 >= 0 && B[s2].val == v, "C17 after put the key is bound to the new value");
  int so2 = slot_of(B, CAP, other);
  OBLIGE((so >= 0) == (so2 >= 0) && (so < 0 || B[so2].val == vo), "C17 put leaves every other key's binding unchanged");
#elif OPN == 2 /* delete */
  hashmap_delete2(&M, pool[id], 1);
  REACH("returns");
  OBLIGE(wf(&M), "C17 delete preserves the representation invariant");
  OBLIGE(slot_of(B, CAP, id) < 0, "C17 after delete the key is absent");
  int so2 = slot_of(B, CAP, other);
  OBLIGE((so >= 0) == (so2 >= 0) && (so < 0 || B[so2].val == vo), "C17 delete leaves every other key's binding unchanged");
#elif OPN == 4 /* rehash itself, called on a table of a concrete shape (kinds of the slots) with arbitrary hash values and values */
  rehash(&M);
  REACH("returns");
  OBLIGE(M.capacity >= CAP && M.capacity <= 4 * CAP, "C17 rehash picks a capacity");
  OBLIGE(wf(&M), "C17 rehash re-establishes the representation invariant");
  { int s2 = slot_of(M.buckets, M.capacity, id); OBLIGE((sk >= 0) == (s2 >= 0) && (sk < 0 || M.buckets[s2].val == vk), "C17 rehash preserves every key's binding (a key behind a tombstone stays reachable)"); }
  { int tomb = 0; for (int i = 0; i < M.capacity; i++) if (M.buckets[i].key == TOMBSTONE) tomb++; OBLIGE(tomb == 0, "C17 rehash drops every tombstone"); }
#elif OPN == 3 /* put at or above the high watermark: goes through rehash (real code, fully unwound) */
  ASSUME((M.used * 100) / M.capacity >= 70);
  void *v = nondet_ptr_();
  hashmap_put2(&M, pool[id], 1, v);
  OBLIGE(M.capacity >= CAP && M.capacity <= 4 * CAP, "C17 rehash picks a capacity");
  OBLIGE(wf(&M), "C17 put through rehash re-establishes the representation invariant");
  int s2 = slot_of(M.buckets, M.capacity, id);
  OBLIGE(s2 >= 0 && M.buckets[s2].val == v, "C17 after put through rehash the key is bound to the new value");
  int so2 = slot_of(M.buckets, M.capacity, other);
  OBLIGE((so >= 0) == (so2 >= 0) && (so < 0 || M.buckets[so2].val == vo), "C17 rehash preserves every other key's binding");
  int tomb = 0; for (int i = 0; i < M.capacity; i++) if (M.buckets[i].key == TOMBSTONE) tomb++;
  OBLIGE(tomb == 0, "C17 rehash drops every tombstone");
#endif
}
