from engine.core import Job
META = dict(
    level="other",
    claim="Dictionary semantics of the real hashmap.c as a one-step inductive invariant: from an arbitrary well-formed table state (arbitrary tombstones, arbitrary 64-bit hash values, hence all collision patterns and all histories) get/put/delete return the abstract view's answer, update exactly the addressed key and re-establish the invariant; unreachable() cannot fire. rehash itself is not covered (symbolic capacity). Bounded in table capacity (4 quick, 8 thorough; real tables start at 16) and to 3 distinct keys; unbounded in history length and hash values.",
    note="Assumed: fnv_hash is a deterministic function of the key bytes (replaced by a ghost hash table). Trusted: CBMC. The induction over histories (invariant holds initially, preserved by every step) is the standard argument and is not machine-checked as a whole.",
    functions=["preprocess.c:add_macro", "preprocess.c:find_macro", "preprocess.c:undef_macro", "hashmap.c:get_entry", "hashmap.c:get_or_insert_entry", "hashmap.c:hashmap_get2", "hashmap.c:hashmap_put2", "hashmap.c:hashmap_delete2", "hashmap.c:match"],
    trusted_base=["CBMC 6.11", "ghost hash table in place of fnv_hash"],
    assumptions=["fnv_hash deterministic (ghost table)", "keys are NUL-terminated 1-byte strings from a pool of 3"],
    explanation="one-step inductive dictionary invariant on the real hashmap.c from arbitrary well-formed states; capacity-bounded, so reported as bounded",
)

def jobs(tier):
    js = []
    for cap, t in ((4, "quick"), (6, "quick"), (8, "thorough")):
        # (3, "put-rehash") is not run: the new capacity is symbolic after rehash, and `hash % capacity` with a symbolic
        # divisor does not finish on any back end here (DESIGN.md C17); rehash is therefore NOT under contract.
        for opn, nm in ((0, "get"), (1, "put"), (2, "delete")):
            big = 4 * cap + 2
            loops = ["harness.0", "any_state.0", "any_state.1", "wf.0", "wf.1", "wf.2", "slot_of.0", "get_or_insert_entry.0",
                     "rehash.0", "rehash.1", "rehash.2", "memcmp.0", "get_entry.0",
                     "rehash_wrapped_for_contract_checking.0", "rehash_wrapped_for_contract_checking.1", "rehash_wrapped_for_contract_checking.2"]
            js.append(Job(name=f"hm-{nm}-cap{cap}", src="hm.c", group="C17 dictionary step", defs={"CAP": str(cap), "OPN": str(opn)},
                          mode=("dfcc" if opn == 3 else "legacy"), enforce=("rehash" if opn == 3 else None), rec=(opn == 3),
                          replace=["fnv_hash"], tier=t, timeout=900 if cap > 4 else 300,
                          cut=["error", "error_tok", "error_at"],
                          # put below the watermark never reaches rehash (precondition): cut it; the rehash job bounds the
                          # put->rehash->put recursion at depth 2 (an inner rehash would fail the unwinding assertion)
                          cut_defined=(["rehash"] if opn == 1 else []),
                          unwind=(None if opn == 3 else 2), unwindset=[f"{l}:{big}" for l in loops],
                          bounded=f"capacity {cap}, 3 distinct keys; arbitrary table state, hash values and history",
                          replay=None, sample=f"{nm} from an arbitrary well-formed state of a capacity-{cap} table"))
    # tried: put through rehash with the slot kinds concretised path by path (-DCONCRETE_STATE, cbmc --paths lifo), capacity 4:
    # no result in 900 s (625 table shapes x symbolic hash values through two tables).  rehash stays NOT covered.
    # also tried: rehash called directly on concrete table shapes (-DOPN=4 -DSHAPE='{2,1,3,0}', hash values symbolic): no result in 600 s.
    js.append(Job(name="macro-table-client", src="macrotab.c", group="C17.4 macro table client", mode="plain", cut=["error", "error_tok", "error_at", "warn_tok", "verror_at"], unwind=6, timeout=300, replay=None,
                  bounded="one name", sample="add_macro / find_macro / undef_macro over a ghost dictionary, arbitrary earlier definition"))
    js.append(Job(name="hm-match", src="match.c", group="C17 key comparison", mode="plain", cut=["error", "error_tok", "error_at"], unwind=26, timeout=300, replay=None,
                  bounded="keys of at most 20 bytes", sample="match() on arbitrary keys up to 20 bytes"))
    return js
