// C17.4  the macro table as a client of the dictionary: real preprocess.c add_macro / find_macro / undef_macro over a GHOST
// one-key dictionary (get/put/delete on `macros` have dictionary semantics: C17.1-.3).  After (re)defining a name the
// table binds it to a definition with EXACTLY the new attributes - object/function-like, body, and nothing inherited
// from an earlier definition of the name (parameters, variadic name, built-in handler); after #undef the name is unbound.
#include "verif.h"
#include "preprocess.c"
StringArray include_paths; char *base_file; bool opt_fpic; bool opt_fcommon;
bool file_exists(char *p) { return 0; }
static Macro *BOUND;      /* ghost dictionary: what the key "M" is bound to */
void *hashmap_get2(HashMap *m, char *k, int l) { return (m == &macros && l == 1 && k[0] == 'M') ? (void *)BOUND : (void *)0; }
void *hashmap_get(HashMap *m, char *k) { return hashmap_get2(m, k, (int)strlen(k)); }
void hashmap_put2(HashMap *m, char *k, int l, void *v) { if (m == &macros && l == 1 && k[0] == 'M') BOUND = v; }
void hashmap_put(HashMap *m, char *k, void *v) { hashmap_put2(m, k, (int)strlen(k), v); }
void hashmap_delete2(HashMap *m, char *k, int l) { if (m == &macros && l == 1 && k[0] == 'M') BOUND = 0; }
void hashmap_delete(HashMap *m, char *k) { hashmap_delete2(m, k, (int)strlen(k)); }
static Token *some_handler(Token *t) { return t; }
_Bool nondet_bool_(void);
void harness(void) {
  static Macro OLD; static MacroParam PP; static Token B0, B1, ID; static char NM[] = "M";
  OLD = (Macro){0}; OLD.name = NM; OLD.is_objlike = nondet_bool_(); OLD.body = &B0; OLD.params = nondet_bool_() ? &PP : (MacroParam *)0; OLD.va_args_name = nondet_bool_() ? "__VA_ARGS__" : (char *)0;
  OLD.handler = nondet_bool_() ? some_handler : (macro_handler_fn *)0;
  BOUND = nondet_bool_() ? &OLD : (Macro *)0;
  _Bool objlike = nondet_bool_();
  Macro *m = add_macro(NM, objlike, &B1);
  REACH("add_macro returns");
  ID = (Token){0}; ID.kind = TK_IDENT; ID.loc = NM; ID.len = 1;
  Macro *f = find_macro(&ID);
  OBLIGE(f != 0 && f == m, "C17.4 after a definition the name is bound to it");
  OBLIGE(f == 0 || (f->is_objlike == objlike && f->body == &B1 && f->params == 0 && f->va_args_name == 0 && f->handler == 0),
         "C17.4 a (re)definition binds the name to exactly the new definition: nothing of an earlier definition survives (a redefined __LINE__ is an ordinary macro)");
  undef_macro(NM);
  OBLIGE(find_macro(&ID) == 0, "C17.4 after #undef the name is not a macro");
}
