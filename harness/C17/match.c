// C17  key comparison: real hashmap.c match() on arbitrary keys of up to 20 bytes: true iff the entry is live and the
// keys have equal length and equal bytes.
#include "verif.h"
#include "hashmap.c"
#define KL 20
void harness(void) {
  char k1[KL + 4], k2[KL + 4];
  for (int i = 0; i < KL + 4; i++) { k1[i] = nondet_char_(); k2[i] = nondet_char_(); }
  IN(int, l1); IN(int, l2); ASSUME(1 <= l1 && l1 <= KL && 1 <= l2 && l2 <= KL);
  IN(int, state); ASSUME(0 <= state && state <= 2);
  HashEntry e = {0}; e.key = state == 0 ? 0 : state == 1 ? (char *)TOMBSTONE : k1; e.keylen = l1;
  _Bool same = state == 2 && l1 == l2;
  for (int i = 0; i < KL; i++) if (i < l1 && i < l2 && k1[i] != k2[i]) same = 0;
  _Bool r = match(&e, k2, l2);
  REACH("returns");
  OBLIGE(r == same, "C17 two keys match iff the entry is live and the keys are byte-for-byte equal over their full length");
}
char nondet_char_(void);
