from engine.core import Job
TI = ["bool", "char", "uchar", "short", "ushort", "int", "uint", "long", "ulong", "enum", "ptr", "float", "double", "ldouble", "void"]
CG = dict(units=["type.c"], mode="dfcc", cut=["error", "error_tok", "error_at", "warn_tok"],
          no_checks=["signed-overflow", "undefined-shift"], timeout=400)
META = dict(
    level="proof",
    claim="Statement lowering (real gen_stmt) and short-circuit/conditional lowering (real gen_expr), executed on the ghost x86 machine with abstract sub-statements: exactly the branch selected by the condition's value (of the condition's own type) is executed; for/do evaluate init, condition, body, increment in abstract-machine order, the back-edge returns to the loop head label, continue/break labels sit where C11 requires; &&, || and ?: evaluate their operands exactly when C11 says and in order; goto/label/case/return jump to / define the resolved labels. One symbolic pass per loop; iteration is by the loop-head invariant (machine balanced at the back-edge).",
    note="Trusted: CBMC, ghost x86 machine. Also: switch dispatch compares at the width of the controlling type incl. case ranges (32/64-bit); find_var/find_typedef/find_tag return the innermost binding over 3 nested scopes; resolve_goto_labels binds each goto to the label with exactly its name (bounded lists). Not covered: the statement parser's break/continue/switch context save-restore, computed-goto targets' validity.",
    functions=["parse.c:struct_union_decl", "parse.c:push_tag_scope", "parse.c:stmt", "parse.c:compound_stmt", "codegen.c:gen_stmt", "codegen.c:gen_expr", "codegen.c:cmp_zero", "codegen.c:count", "parse.c:find_var", "parse.c:find_tag", "parse.c:find_typedef", "parse.c:resolve_goto_labels"],
    trusted_base=["CBMC 6.11", "spec/x86_ghost.h"],
    assumptions=["sub-statements and sub-expressions are abstract nodes satisfying the gen_stmt/gen_expr contracts"],
)
STMTS = ["ND_IF", "ND_FOR", "ND_DO", "ND_BLOCK", "ND_EXPR_STMT", "ND_RETURN", "ND_GOTO", "ND_GOTO_EXPR", "ND_LABEL", "ND_CASE"]
def jobs(tier):
    js = []
    for k in STMTS:
        for cty in (5, 7, 12):
            if cty != 5 and k not in ("ND_IF", "ND_FOR", "ND_DO"):
                continue
            for ho in ((1, 0) if k in ("ND_IF", "ND_FOR", "ND_BLOCK", "ND_RETURN") else (1,)):
                js.append(Job(name=f"stmt-{k}-{TI[cty]}-opt{ho}", src="stmt.c", group="C03.4 statement skeleton", defs={"KIND": k, "CTY": str(cty), "HAS_OPT": str(ho)},
                              enforce="gen_stmt", rec=True, replace=["gen_expr"], tier=("quick" if cty == 5 or ho == 1 else "thorough"),
                              sample=f"gen_stmt({k}), {TI[cty]} condition, optional parts {'present' if ho else 'absent'}", **CG))
    for cty in (5, 6, 7, 8):
        js.append(Job(name=f"switch-{TI[cty]}", src="switch.c", group="C03.6 switch dispatch", defs={"CTY": str(cty)}, enforce="gen_stmt", rec=True, replace=["gen_expr"],
                      sample=f"switch on a {TI[cty]} value: two cases (values or ranges) + optional default, all bounds symbolic", **CG))
    PLN = dict(mode="plain", cut=["error", "error_tok", "error_at", "warn_tok", "verror_at"], units=["type.c"], timeout=300, replay=None)
    js.append(Job(name="names-scope", src="names.c", group="C03.3 name binding", defs={"FN": "0"}, unwind=5, bounded="3 nested scopes, 2 names", sample="find_var/find_tag/find_typedef over every binding pattern of 3 scopes", **PLN))
    js.append(Job(name="names-goto", src="names.c", group="C03.3 name binding", defs={"FN": "1"}, unwind=12, bounded="2 gotos, 3 labels (one a prefix of another)", sample="resolve_goto_labels over every goto/label pattern", **PLN))
    for k in ("ND_LOGAND", "ND_LOGOR", "ND_COND"):
        js.append(Job(name=f"logic-{k}", src="../C01/logic.c", group="C03.5 short-circuit", defs={"KIND": k}, enforce="gen_expr", rec=True,
                      sample=f"gen_expr({k}): which operands are evaluated, in which order", **CG))
    for sc, nm in enumerate(["do", "for", "while", "switch"]):
        js.append(Job(name=f"ctx-{nm}", src="ctx.c", group="C03.2 break/continue/switch context", defs={"SCEN": str(sc)}, mode="plain", cut=["error", "error_tok", "error_at", "warn_tok"], units=["type.c"],
                      redirect={"expr": "stub_expr", "new_unique_name": "stub_new_unique_name", "is_typename": "stub_is_typename"}, cbmc_flags=["--paths lifo"], unwind=30, unwindset=["strlen.0:40", "memcmp.0:40"], timeout=300, replay=None,
                      bounded="one statement shape per job, arbitrary enclosing context", sample=f"stmt() on a {nm} statement whose body holds continue and break"))
    for f, nm in enumerate(["definition", "reference"]):
        js.append(Job(name=f"tags-{nm}", src="tags.c", group="C03.3 name binding", defs={"FORM": str(f)}, mode="plain", cut=["error", "error_tok", "error_at", "warn_tok"], units=["type.c"],
                      redirect={"struct_members": "stub_struct_members", "attribute_list": "stub_attribute_list"}, unwind=8, timeout=300, replay=None,
                      bounded="two nested scopes, one tag", sample=f"struct_union_decl on a tag {nm} with every binding pattern of two scopes"))
    return js
