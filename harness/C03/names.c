// C03.3  name binding: real parse.c find_var / find_tag / find_typedef over a chain of three block scopes, and
// resolve_goto_labels over two gotos and three labels.  hashmap_get2 is a ghost dictionary (its dictionary semantics
// are C17's obligation): each scope binds each of two names or not, symbolically.
#include "verif.h"
#include "parse.c"
// ghost dictionaries: scope s (0 innermost .. 2 outermost) x namespace (0 vars, 1 tags) x name (0,1)
_Bool BND[3][2][2]; VarScope VS[3][2]; Type TG[3][2]; Scope SC[3];
static char N0[] = "aa", N1[] = "ab";
void *hashmap_get2(HashMap *map, char *key, int keylen) {
  int s = -1, ns = -1;
  for (int i = 0; i < 3; i++) { if (map == &SC[i].vars) { s = i; ns = 0; } if (map == &SC[i].tags) { s = i; ns = 1; } }
  int nm = (keylen == 2 && key[0] == 'a' && key[1] == 'a') ? 0 : (keylen == 2 && key[0] == 'a' && key[1] == 'b') ? 1 : -1;
  if (s < 0 || nm < 0 || !BND[s][ns][nm]) return 0;
  return ns == 0 ? (void *)&VS[s][nm] : (void *)&TG[s][nm];
}
_Bool nondet_bool_(void); int nondet_int_(void);
void harness(void) {
#if FN == 0
  for (int s = 0; s < 3; s++) { SC[s] = (Scope){0}; SC[s].next = s < 2 ? &SC[s + 1] : 0; for (int ns = 0; ns < 2; ns++) for (int nm = 0; nm < 2; nm++) BND[s][ns][nm] = nondet_bool_(); }
  static Type TD; for (int s = 0; s < 3; s++) for (int nm = 0; nm < 2; nm++) { VS[s][nm] = (VarScope){0}; VS[s][nm].type_def = nondet_bool_() ? &TD : 0; }
  scope = &SC[0];
  int nm = nondet_int_(); ASSUME(nm == 0 || nm == 1);
  Token tok = {0}; tok.kind = TK_IDENT; tok.loc = nm == 0 ? N0 : N1; tok.len = 2;
  int want = -1, wantt = -1;
  for (int s = 2; s >= 0; s--) { if (BND[s][0][nm]) want = s; if (BND[s][1][nm]) wantt = s; }
  VarScope *r = find_var(&tok); Type *t = find_tag(&tok); Type *td = find_typedef(&tok);
  REACH("returns");
  OBLIGE(r == (want < 0 ? (VarScope *)0 : &VS[want][nm]), "C03.3 an ordinary identifier binds to the innermost scope that declares it");
  OBLIGE(t == (wantt < 0 ? (Type *)0 : &TG[wantt][nm]), "C03.3 a tag binds to the innermost scope that declares it; tags and ordinary identifiers are separate name spaces");
  OBLIGE(td == (want < 0 ? (Type *)0 : VS[want][nm].type_def), "C03.3 a name is a typedef name iff its innermost visible declaration is a typedef (an inner object hides an outer typedef)");
#else
  // resolve_goto_labels
  static char *names[3] = {"out", "out_unlock", "x"}; static char *uniq[3] = {".L..1", ".L..2", ".L..3"};
  static Node G[2], L[3]; static Token T1[2], T2[2];
  int present = nondet_int_(); ASSUME(0 <= present && present < 8);       /* which of the three labels exist */
  Node *lh = 0;
  for (int i = 0; i < 3; i++) { L[i] = (Node){0}; L[i].label = names[i]; L[i].unique_label = uniq[i]; if (present & (1 << i)) { L[i].goto_next = lh; lh = &L[i]; } }
  int g0 = nondet_int_(), g1 = nondet_int_(); ASSUME(0 <= g0 && g0 < 3 && 0 <= g1 && g1 < 3);
  int gs[2] = {g0, g1};
  for (int i = 0; i < 2; i++) { G[i] = (Node){0}; G[i].label = names[gs[i]]; T1[i] = (Token){0}; T2[i] = (Token){0}; T1[i].next = &T2[i]; T2[i].len = (int)strlen(names[gs[i]]); T2[i].loc = names[gs[i]]; G[i].tok = &T1[i]; G[i].goto_next = i == 0 ? &G[1] : 0; }
  gotos = &G[0]; labels = lh;
  resolve_goto_labels();
  REACH("returns when every goto has its label");
  for (int i = 0; i < 2; i++) {
    OBLIGE((present & (1 << gs[i])) != 0, "C03.3 a goto whose label is not defined in the function is diagnosed");
    OBLIGE(G[i].unique_label == uniq[gs[i]], "C03.3 a goto is bound to the label with exactly its name");
  }
  OBLIGE(gotos == 0 && labels == 0, "C03.3 label tables are per function: reset after resolution");
#endif
}
