// C03.2  break / continue / switch context in the statement parser: the real parse.c stmt() on the loop and switch forms
//   SCEN 0: do { continue ; break ; } while ( v ) ;      SCEN 1: for ( ; v ; v ) { continue ; break ; }
//   SCEN 2: while ( v ) { continue ; break ; }            SCEN 3: switch ( v ) { break ; }
// entered with ARBITRARY outer break/continue labels and enclosing switch.  Inside the body `break` and `continue` bind to
// the construct's own fresh labels (a switch leaves `continue` bound to the enclosing loop); after the construct the
// outer context is exactly restored (so a later `continue` in the enclosing loop body jumps where C11 6.8.6.2 says).
// Stand-ins: expr (consumes one token, yields a number), new_unique_name (ghost fresh names), is_typename (false).
#include "verif.h"
#include "parse.c"
void *hashmap_get2(HashMap *m, char *k, int l) { return 0; }
void hashmap_put(HashMap *m, char *k, void *v) { }
bool equal(Token *tok, char *op) { size_t n = strlen(op); return (size_t)tok->len == n && !memcmp(tok->loc, op, n); }
Token *skip(Token *tok, char *op) { if (!equal(tok, op)) { ASSUME(0); } return tok->next; }
bool consume(Token **rest, Token *tok, char *str) { if (equal(tok, str)) { *rest = tok->next; return 1; } *rest = tok; return 0; }
static Node NUMN[4]; static int nn;
Node *stub_expr(Token **rest, Token *tok) { Node *n = &NUMN[nn < 3 ? nn++ : 3]; *n = (Node){0}; n->kind = ND_NUM; n->ty = ty_int; n->tok = tok; *rest = tok->next; return n; }
static char NAMES[6][6]; static int nname;
char *stub_new_unique_name(void) { int k = nname < 5 ? nname : 5; nname++; return NAMES[k]; }
bool stub_is_typename(Token *tok) { return 0; }
#define NT 24
static Token T[NT];
static void mk(Token *t, TokenKind k, char *s) { *t = (Token){0}; t->kind = k; t->loc = s; t->len = (int)strlen(s); t->next = t + 1; }
_Bool nondet_bool_(void);
void harness(void) {
  static Type TI; TI = (Type){TY_INT, 4, 4}; ty_int = &TI; static Type TV; TV = (Type){TY_VOID, 1, 1}; ty_void = &TV;
  static Scope sc; sc = (Scope){0}; scope = &sc; nn = 0; nname = 0;
  static char OB[] = ".Lob", OC[] = ".Loc"; static Node OSW;
  char *b0 = nondet_bool_() ? OB : (char *)0, *c0 = nondet_bool_() ? OC : (char *)0; Node *s0 = nondet_bool_() ? &OSW : (Node *)0;
#if SCEN == 3
  ASSUME(c0 != 0);        /* `continue` inside a switch needs an enclosing loop */
#endif
  brk_label = b0; cont_label = c0; current_switch = s0; OSW = (Node){0};
#if SCEN == 0
  static char *txt[] = {"do", "{", "continue", ";", "break", ";", "}", "while", "(", "v", ")", ";", "x"};
#elif SCEN == 1
  static char *txt[] = {"for", "(", ";", "v", ";", "v", ")", "{", "continue", ";", "break", ";", "}", "x"};
#elif SCEN == 2
  static char *txt[] = {"while", "(", "v", ")", "{", "continue", ";", "break", ";", "}", "x"};
#else
  static char *txt[] = {"switch", "(", "v", ")", "{", "continue", ";", "break", ";", "}", "x"};
#endif
  int nt = (int)(sizeof(txt) / sizeof(txt[0]));
  for (int i = 0; i < NT; i++) { char *s = i < nt ? txt[i] : "x"; mk(&T[i], (s[0] >= 'a' && s[0] <= 'z') ? TK_IDENT : TK_PUNCT, s); }
  T[NT - 1].next = &T[NT - 1];
  Token *rest = 0;
  Node *n = stmt(&rest, &T[0]);
  REACH("returns");
  OBLIGE(rest == &T[nt - 1], "C03.2 the statement consumes exactly its tokens");
  OBLIGE(brk_label == b0 && cont_label == c0 && current_switch == s0, "C03.2 after a loop or switch the enclosing break/continue/switch context is restored exactly");
  Node *body = n->then, *cn = body ? body->body : 0, *bn = cn ? cn->next : 0;
  OBLIGE(body && body->kind == ND_BLOCK && cn && bn && cn->kind == ND_GOTO && bn->kind == ND_GOTO, "C03.2 the body holds the continue and the break");
  OBLIGE(!bn || (n->brk_label && bn->unique_label == n->brk_label && n->brk_label != b0), "C03.2 `break` in the body leaves this construct (its own fresh label)");
#if SCEN == 3
  OBLIGE(!cn || cn->unique_label == c0, "C03.2 `continue` inside a switch still continues the enclosing loop");
#else
  OBLIGE(!cn || (n->cont_label && cn->unique_label == n->cont_label && n->cont_label != c0 && n->cont_label != n->brk_label), "C03.2 `continue` in the body continues this loop (its own fresh label)");
#endif
}
