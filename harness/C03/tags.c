// C03.3  tag name space and block scopes (C11 6.7.2.3p4-6): the real parse.c struct_union_decl with two nested scopes whose
// tag tables are symbolic (the tag T may be bound in the inner scope, the outer scope, both or neither, to complete or
// incomplete types):
//   FORM 0  `struct T { ... }`  - a definition.  It declares T in the CURRENT (innermost) scope: it completes/overwrites a
//           type already declared there, otherwise it creates a new type there; a type of an enclosing scope is never
//           touched, complete or not.
//   FORM 1  `struct T`          - a reference: the innermost visible declaration, else a new incomplete type in the
//           current scope.
// Ghost: the two tag tables (hashmap_get2/hashmap_put on scope->tags); stand-ins: struct_members (yields a member list),
// attribute_list (no attributes).
#include "verif.h"
#include "parse.c"
static Scope IN, OUT; static Type TIN, TOUT; static _Bool bin_, bout; static Type *put_ty; static HashMap *put_map;
void *hashmap_get2(HashMap *m, char *k, int l) {
  if (!(l == 1 && k[0] == 'T')) return 0;
  if (m == &IN.tags) return put_map == &IN.tags ? (void *)put_ty : bin_ ? (void *)&TIN : (void *)0;
  if (m == &OUT.tags) return bout ? (void *)&TOUT : (void *)0;
  return 0;
}
void hashmap_put2(HashMap *m, char *k, int l, void *v) { if (l == 1 && k[0] == 'T') { put_map = m; put_ty = v; } }
void hashmap_put(HashMap *m, char *k, void *v) { hashmap_put2(m, k, (int)strlen(k), v); }
char *strndup(const char *s, size_t n) { char *p = malloc(n + 1); for (size_t i = 0; i < n; i++) p[i] = s[i]; p[n] = 0; return p; }
bool equal(Token *tok, char *op) { size_t n = strlen(op); return (size_t)tok->len == n && !memcmp(tok->loc, op, n); }
Token *skip(Token *tok, char *op) { if (!equal(tok, op)) { ASSUME(0); } return tok->next; }
bool consume(Token **rest, Token *tok, char *str) { if (equal(tok, str)) { *rest = tok->next; return 1; } *rest = tok; return 0; }
static Member MEMB; static Token T[6];
void stub_struct_members(Token **rest, Token *tok, Type *ty) { ty->members = &MEMB; *rest = &T[3]; }      /* consumes the member list and the closing brace */
Token *stub_attribute_list(Token *tok, Type *ty) { return tok; }
static void mk(Token *t, TokenKind k, char *s) { *t = (Token){0}; t->kind = k; t->loc = s; t->len = (int)strlen(s); t->next = t + 1; }
_Bool nondet_bool_(void); int nondet_int_(void);
void harness(void) {
  IN = (Scope){0}; OUT = (Scope){0}; IN.next = &OUT; scope = &IN; put_ty = 0; put_map = 0;
  bin_ = nondet_bool_(); bout = nondet_bool_();
  TIN = (Type){TY_STRUCT, nondet_bool_() ? -1 : 8, 4}; TOUT = (Type){TY_STRUCT, nondet_bool_() ? -1 : 16, 8};
  Type in0 = TIN, out0 = TOUT;
  mk(&T[0], TK_IDENT, "T");
#if FORM == 0
  mk(&T[1], TK_PUNCT, "{"); mk(&T[2], TK_PUNCT, "}"); mk(&T[3], TK_PUNCT, ";"); mk(&T[4], TK_EOF, "");
#else
  mk(&T[1], TK_PUNCT, "*"); mk(&T[2], TK_IDENT, "p"); mk(&T[3], TK_PUNCT, ";"); mk(&T[4], TK_EOF, "");
#endif
  Token *rest = 0;
  Type *r = struct_union_decl(&rest, &T[0]);
  REACH("returns");
  OBLIGE(TOUT.size == out0.size && TOUT.members == out0.members && TOUT.kind == out0.kind, "C03.3 a declaration in an inner scope never changes a tag type of an enclosing scope");
#if FORM == 0
  OBLIGE(rest == &T[3] && r->members == &MEMB, "C03.3 the definition has the parsed members");
  OBLIGE(bin_ ? (r == &TIN && put_ty == 0) : (r != &TOUT && r != &TIN && put_map == &IN.tags && put_ty == r), "C03.3 a struct definition declares its tag in the current scope: it completes the type declared there, or creates a new type there even if an enclosing scope has the tag");
#else
  OBLIGE(rest == &T[1], "C03.3 a reference consumes the tag only");
  OBLIGE(bin_ ? r == &TIN : bout ? r == &TOUT : (r != &TIN && r != &TOUT && r->size < 0 && put_map == &IN.tags && put_ty == r), "C03.3 a tag reference denotes the innermost visible declaration; an undeclared tag becomes an incomplete type in the current scope");
  OBLIGE(TIN.size == in0.size, "C03.3 a reference does not change the type it finds");
#endif
}
