// C03.4 / C20  statement lowering: real gen_stmt under its recursive contract (sub-statements and expressions are
// abstract: their contracts record when they are evaluated, yield arbitrary values and leave no residue).
// KIND concrete per job.  One symbolic pass through the emitted text is executed: forward jumps skip, a backward
// jump (loop back-edge) must find the machine balanced as at its label and ends the pass.
#include "cg_harness.h"
#ifndef ETY
#define ETY TI_INT
#endif
#ifndef CTY
#define CTY TI_INT
#endif
#ifndef HAS_OPT
#define HAS_OPT 1
#endif
void harness(void) {
  cg_init();
  Node c = {0}, s1 = {0}, s2 = {0}, e3 = {0}, n = {0};
  Obj fn = {0};
  IN(uint64_t, vc); const _Bool has_opt = HAS_OPT;   /* optional parts present (init/inc, else, second statement, return value): concrete per job */
  Type *ct = &CGT[CTY];
  cg_node(&c, ND_NULL_EXPR, ct); cg_node(&s1, ND_NULL_EXPR, 0); cg_node(&s2, ND_NULL_EXPR, 0); cg_node(&e3, ND_NULL_EXPR, &CGT[ETY]);    /* the third clause of a for statement: its value is discarded, whatever its type */
  s1.kind = ND_BLOCK; s2.kind = ND_BLOCK;      /* abstract statements */
  cg_node(&n, KIND, 0);
  ASSUME(CTY >= TI_FLOAT || spec_canon(cg_st(ct), (int64_t)vc));
  cg_child[0] = &c; cg_child[1] = &s1; cg_child[2] = &s2; cg_child[3] = &e3; cg_val[0] = vc; cg_root = &n; cg_check_val = 0;
  fn.name = "f"; current_fn = &fn;
  _Bool truth;
  if (CTY == TI_FLOAT) truth = gm_f32(vc) != 0; else if (CTY == TI_DOUBLE) truth = gm_f64(vc) != 0; else truth = vc != 0;   /* long double: integer-valued model */
  n.brk_label = ".L..brk"; n.cont_label = ".L..cont";
  switch (KIND) {
  case ND_IF: n.cond = &c; n.then = &s1; n.els = has_opt ? &s2 : 0; break;
  case ND_FOR: n.init = has_opt ? &s2 : 0; n.cond = &c; n.then = &s1; n.inc = has_opt ? &e3 : 0; break;
  case ND_DO: n.then = &s1; n.cond = &c; break;
  case ND_BLOCK: n.body = &s1; s1.next = has_opt ? &s2 : 0; break;
  case ND_EXPR_STMT: n.lhs = &c; break;
  case ND_RETURN: n.lhs = has_opt ? &c : 0; break;
  case ND_GOTO: n.unique_label = ".L..9"; break;
  case ND_GOTO_EXPR: c.ty = &CGT[TI_PTR]; n.lhs = &c; break;
  case ND_LABEL: n.unique_label = ".L..9"; n.lhs = &s1; break;
  case ND_CASE: n.label = ".L..9"; n.lhs = &s1; break;
  }
  CG_ENTRY_STATE(1);
  IN(int, x0); ASSUME(0 <= x0 && x0 <= 2); m.x87 = x0;
  (void)verif_val(0); (void)cg_holds(ct, 0); (void)cg_x87_delta(ct);
  gen_stmt(&n);
  REACH("gen_stmt returns");
  int at_c = cg_child_at[0], at_s1 = cg_child_at[1], at_s2 = cg_child_at[2], at_e3 = cg_child_at[3];
  switch (KIND) {
  case ND_IF:
    OBLIGE(at_c >= 0 && (at_s1 >= 0) == truth && (at_s2 >= 0) == (!truth && has_opt), "C03.4 if: exactly the selected branch is executed, after the condition");
    OBLIGE((at_s1 < 0 || at_c < at_s1) && (at_s2 < 0 || at_c < at_s2) && !m.skip && !m.halt, "C03.4 if: condition first; control rejoins after the statement");
    break;
  case ND_FOR: {
    // labels reached by this pass, in order: [0] loop head; then [1] = continue label (condition true) or break label (false)
    OBLIGE(m.nlab == 2 && gm_lab[0].has_num, "C03.4 for: a fresh numbered loop-head label, then exactly one more label is reached per pass");
    OBLIGE(has_opt ? (at_s2 >= 0 && gm_lab[0].at > at_s2) : at_s2 < 0, "C03.4 for: the init statement runs once, before the loop head");
    OBLIGE(at_c > gm_lab[0].at, "C03.4 for: the condition is evaluated at the loop head, after its label");
    OBLIGE((at_s1 >= 0) == truth && (at_e3 >= 0) == (truth && has_opt), "C03.4 for: body and increment run iff the condition holds");
    if (truth) {
      OBLIGE(m.halt && m.bj_label == 0 && at_s1 < m.bj_at && (!has_opt || (at_s1 < at_e3 && at_e3 < m.bj_at)), "C03.4 for: body, then increment, then back to the loop head (which re-tests the condition)");
      OBLIGE(gm_lab[1].at > at_s1 && (!has_opt || gm_lab[1].at < at_e3) && gm_same_text(gm_lab[1].text, gm_lab[1].len, ".L..cont", 8), "C03.4 for: the continue label sits between body and increment");
    } else {
      OBLIGE(!m.skip && !m.halt && gm_same_text(gm_lab[1].text, gm_lab[1].len, ".L..brk", 7), "C03.4 for: a false condition leaves the loop through the break label, after all loop text");
    }
    break; }
  case ND_DO: {
    OBLIGE(m.nlab >= 2 && gm_lab[0].has_num && at_s1 > gm_lab[0].at && at_c > at_s1, "C03.4 do: loop head label, body first, then the condition");
    OBLIGE(gm_lab[1].at > at_s1 && gm_lab[1].at < at_c && gm_same_text(gm_lab[1].text, gm_lab[1].len, ".L..cont", 8), "C03.4 do: the continue label sits between body and condition");
    if (truth) OBLIGE(m.halt && m.bj_label == 0 && m.bj_at > at_c, "C03.4 do: a true condition jumps back to the loop head");
    else OBLIGE(!m.halt && !m.skip && m.nlab == 3 && gm_same_text(gm_lab[2].text, gm_lab[2].len, ".L..brk", 7), "C03.4 do: a false condition falls out of the loop onto the break label");
    break; }
  case ND_BLOCK:
    OBLIGE(at_s1 >= 0 && (at_s2 >= 0) == has_opt && (!has_opt || at_s1 < at_s2), "C03.4 block: statements in order, each once");
    break;
  case ND_EXPR_STMT:
    OBLIGE(at_c >= 0 && !m.skip && !m.halt, "C03.4 expression statement evaluates its expression");
    break;
  case ND_RETURN:
    OBLIGE((at_c >= 0) == has_opt && m.skip && gm_same_text(gm_skip_text, gm_skip_len, ".L.return.f", 11), "C03.4 return: evaluates its operand and jumps to the function's return label");
    break;
  case ND_GOTO:
    OBLIGE(m.skip && gm_same_text(gm_skip_text, gm_skip_len, ".L..9", 5), "C03.4 goto jumps to its resolved label");
    break;
  case ND_LABEL: case ND_CASE:
    OBLIGE(m.nlab == 1 && at_s1 > gm_lab[0].at && gm_same_text(gm_lab[0].text, gm_lab[0].len, ".L..9", 5), "C03.4 label/case: the label is defined immediately before its statement");
    break;
  }
}
