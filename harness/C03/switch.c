// C03.6  switch dispatch: real gen_stmt(ND_SWITCH) with two case nodes (single value or GNU range) and an optional
// default, controlling expression of type CTY (int / unsigned / long / unsigned long), all case bounds and the
// controlling value symbolic.  The body is an abstract statement, so the case labels themselves are never emitted:
// after the statement the machine is still skipping to the label the dispatch chose (or has landed on the break
// label).  Obligation: that label is the one C11 6.8.4.2 selects.
#include "cg_harness.h"
void harness(void) {
  cg_init();
  Node c = {0}, body = {0}, n = {0}, c1 = {0}, c2 = {0}, df = {0};
  Type *ct = &CGT[CTY]; SpecTy st_ = cg_st(ct);
  IN(uint64_t, v); IN(int64_t, b1); IN(int64_t, e1); IN(int64_t, b2); IN(int64_t, e2); IN(_Bool, has_default);
  ASSUME(spec_canon(st_, (int64_t)v));
  // case constants are converted to the promoted type of the controlling expression (6.8.4.2p5), so they are canonical in it;
  // ranges are non-empty and, like all case values of one switch, disjoint
  ASSUME(spec_canon(st_, b1) && spec_canon(st_, e1) && spec_canon(st_, b2) && spec_canon(st_, e2));
  _Bool in1, in2;
  if (st_.uns) { ASSUME((uint64_t)b1 <= (uint64_t)e1 && (uint64_t)b2 <= (uint64_t)e2); in1 = (uint64_t)b1 <= v && v <= (uint64_t)e1; in2 = (uint64_t)b2 <= v && v <= (uint64_t)e2; ASSUME((uint64_t)e1 < (uint64_t)b2 || (uint64_t)e2 < (uint64_t)b1); }
  else { ASSUME(b1 <= e1 && b2 <= e2); in1 = b1 <= (int64_t)v && (int64_t)v <= e1; in2 = b2 <= (int64_t)v && (int64_t)v <= e2; ASSUME(e1 < b2 || e2 < b1); }
  cg_node(&c, ND_NULL_EXPR, ct); cg_node(&body, ND_NULL_EXPR, 0); body.kind = ND_BLOCK;
  cg_node(&n, ND_SWITCH, 0); n.cond = &c; n.then = &body; n.brk_label = ".L..brk";
  cg_node(&c1, ND_CASE, 0); c1.begin = b1; c1.end = e1; c1.label = ".L..c1";
  cg_node(&c2, ND_CASE, 0); c2.begin = b2; c2.end = e2; c2.label = ".L..c2";
  cg_node(&df, ND_CASE, 0); df.label = ".L..df";
  n.case_next = &c2; c2.case_next = &c1; c1.case_next = 0;       /* the parser prepends: later cases come first */
  n.default_case = has_default ? &df : 0;
  cg_child[0] = &c; cg_child[1] = &body; cg_val[0] = v; cg_root = &n; cg_check_val = 0;
  CG_ENTRY_STATE(1);
  (void)verif_val(0); (void)cg_holds(ct, 0); (void)cg_x87_delta(ct);
  gen_stmt(&n);
  REACH("gen_stmt returns");
  OBLIGE(cg_child_at[0] >= 0, "C03.6 the controlling expression is evaluated once");
  if (in1) OBLIGE(m.skip && gm_same_text(gm_skip_text, gm_skip_len, ".L..c1", 6), "C03.6 a value in the first case's range jumps to that case");
  else if (in2) OBLIGE(m.skip && gm_same_text(gm_skip_text, gm_skip_len, ".L..c2", 6), "C03.6 a value in the second case's range jumps to that case");
  else if (has_default) OBLIGE(m.skip && gm_same_text(gm_skip_text, gm_skip_len, ".L..df", 6), "C03.6 a value matching no case jumps to default");
  else OBLIGE(!m.skip && !m.halt, "C03.6 a value matching no case, without default, leaves the switch without executing its body");
  OBLIGE(cg_child_at[1] < 0 || !(in1 || in2 || has_default), "C03.6 the body is never entered by falling in from the top");
}
