from engine.core import Job
TI = ["bool", "char", "uchar", "short", "ushort", "int", "uint", "long", "ulong", "enum", "ptr", "float", "double", "ldouble", "void"]
CG = dict(units=["type.c"], mode="dfcc", enforce="gen_expr", rec=True, replace=["gen_stmt"], cut=["error", "error_tok", "error_at", "warn_tok"],
          no_checks=["signed-overflow", "undefined-shift"], timeout=600)
PLAIN = dict(units=["type.c"], mode="plain", cut=["error", "error_tok", "error_at", "warn_tok"], no_checks=["signed-overflow", "undefined-shift"], timeout=600)
META = dict(
    level="proof",
    claim="IEEE binary32/binary64 part of the property, bit-exact on CBMC's IEEE-754 semantics: every conversion between float/double and every integer type (and between the two formats) emitted by the real cast() yields the C11 6.3.1.4/6.3.1.5 value for every source value where it is defined; + - == != < <= unary minus and logical not emitted by the real gen_expr equal the IEEE operation (* and / are not run: multiplier/divider equivalence does not finish) for all operands including infinities, signed zeros and NaN operands of comparisons; truth tests treat NaN as true (C03 jobs with float/double conditions).",
    note="Trusted: CBMC's float model (round-to-nearest-even), ghost x86 machine SSE semantics (SDM). long double: on INTEGER-VALUED values (the ghost x87 registers hold integers or a NaN tag) every conversion row between long double and the integer types yields the value, and == != < <= ! are the IEEE relations incl. NaN operands. Not covered: long double fractions/rounding/arithmetic values and unsigned long results >= 2^63 (outside CBMC's model), NaN payload propagation, floating constants' decimal-to-binary rounding (libc strtold), floating constant folding.",
    functions=["codegen.c:cast", "codegen.c:gen_expr", "codegen.c:cmp_zero", "codegen.c:pushf", "codegen.c:popf", "codegen.c:getTypeId", "type.c:add_type", "type.c:get_common_type", "type.c:usual_arith_conv"],
    trusted_base=["CBMC 6.11 floating-point decision procedure", "spec/x86_ghost.h"],
    assumptions=["operands are abstract side-effect-free expressions"],
)
def jobs(tier):
    js = []
    ints = list(range(0, 10))
    for f in (11, 12):
        for t in ints:
            quick = t in (0, 1, 4, 5, 6, 7, 8)
            js.append(Job(name=f"castf-{TI[f]}-{TI[t]}", src="../C01/castf.c", group="C02.1 fp conversions", defs={"FROM": str(f), "TO": str(t)}, tier="quick" if quick else "thorough",
                          sample=f"cast({TI[f]} -> {TI[t]}) for every value whose truncation is representable", **PLAIN))
            js.append(Job(name=f"castf-{TI[t]}-{TI[f]}", src="../C01/castf.c", group="C02.1 fp conversions", defs={"FROM": str(t), "TO": str(f)}, tier="quick" if quick else "thorough",
                          sample=f"cast({TI[t]} -> {TI[f]}) for every integer value", **PLAIN))
    for t in ints:
        js.append(Job(name=f"castl-ldouble-{TI[t]}", src="../C01/castl.c", group="C02.1 fp conversions", defs={"DIR": "0", "ITY": str(t)},
                      sample=f"cast(long double -> {TI[t]}) for every integral value representable in the target (below 2^63)", **PLAIN))
        js.append(Job(name=f"castl-{TI[t]}-ldouble", src="../C01/castl.c", group="C02.1 fp conversions", defs={"DIR": "1", "ITY": str(t)}, tier="quick" if t in (0, 5, 8) else "thorough",
                      sample=f"cast({TI[t]} -> long double) for every integer value", **PLAIN))
    js.append(Job(name="castf-float-double", src="../C01/castf.c", group="C02.1 fp conversions", defs={"FROM": "11", "TO": "12"}, sample="float -> double", **PLAIN))
    js.append(Job(name="castf-double-float", src="../C01/castf.c", group="C02.1 fp conversions", defs={"FROM": "12", "TO": "11"}, sample="double -> float (RNE)", **PLAIN))
    for ft in (11, 12):
        # double-precision * and / are not run: equivalence of two 53-bit multipliers/dividers over separately named
        # operands does not finish (DESIGN.md, tool limits); single precision is run in the thorough tier
        for k in ("ND_ADD", "ND_SUB", "ND_MUL", "ND_DIV", "ND_EQ", "ND_NE", "ND_LT", "ND_LE", "ND_NEG", "ND_NOT"):
            if k in ("ND_MUL", "ND_DIV"):      # single precision * and / did not finish in 30 min in this revision either: not run
                continue
            js.append(Job(name=f"fop-{k}-{TI[ft]}", src="../C01/fop.c", group="C02.2 SSE arithmetic and comparison", defs={"KIND": k, "FT": str(ft)},
                          tier="quick" if ((ft == 12 or k in ("ND_LT", "ND_EQ", "ND_ADD", "ND_NOT")) and k not in ("ND_MUL", "ND_DIV")) else "thorough",
                          sample=f"gen_expr({k}) on {TI[ft]} operands, all bit patterns", **CG))
    for k in ("ND_EQ", "ND_NE", "ND_LT", "ND_LE", "ND_NOT", "ND_ADD", "ND_SUB", "ND_MUL", "ND_DIV"):
        js.append(Job(name=f"fopl-{k}", src="../C01/fopl.c", group="C02.2 x87 comparison and arithmetic", defs={"KIND": k}, tier="quick" if k in ("ND_EQ", "ND_NE", "ND_LT", "ND_SUB") else "thorough",   # the exact-division job needs ~6 min: thorough tier
                      bounded=("8-bit operand magnitudes" if k in ("ND_MUL", "ND_DIV") else None),
                      sample=f"gen_expr({k}) on long double operands: every integral value or a NaN", **dict(CG, timeout=900)))
    for k in ("ND_ADD", "ND_SUB", "ND_MUL", "ND_DIV", "ND_EQ", "ND_LT", "ND_COND"):
        js.append(Job(name=f"typingf-{k}", src="../C01/typing.c", group="C02.6 floating rank", defs={"KIND": k, "TMAX": "12"}, units=["parse.c"], mode="plain",
                      cut=["error", "error_tok", "error_at", "warn_tok"], timeout=180, sample=f"add_type({k}) with at least one floating operand, every type pair"))
    return js
