// C16.4  typing of the atomic primitives: real type.c add_type on ND_EXCH / ND_CAS with typed operands: the value operand
// is converted to the type of the object (so that the width-selected instruction stores exactly that value), the result
// type is the object's type (exchange) or _Bool (compare-exchange).  Plain harness, real new_cast linked in.
#include "verif.h"
#include "type.c"
int nondet_int_(void);
static Type *pick(int i) { switch (i) { case 0: return ty_char; case 1: return ty_uchar; case 2: return ty_short; case 3: return ty_int; case 4: return ty_uint; case 5: return ty_long; default: return ty_ulong; } }
void harness(void) {
  Token tok = {0}; Node obj = {0}, val = {0}, old = {0}, n = {0};
  int to = nondet_int_(), tv = nondet_int_(); ASSUME(0 <= to && to <= 6 && 0 <= tv && tv <= 6);
  Type *ot = pick(to), *vt = pick(tv);
  obj.kind = ND_NULL_EXPR; obj.ty = pointer_to(ot); obj.tok = &tok;
  old.kind = ND_NULL_EXPR; old.ty = pointer_to(ot); old.tok = &tok;
  val.kind = ND_NULL_EXPR; val.ty = vt; val.tok = &tok;
  n.tok = &tok;
#if EXCH
  n.kind = ND_EXCH; n.lhs = &obj; n.rhs = &val;
  add_type(&n);
  REACH("returns");
  OBLIGE(n.ty == ot, "C16.4 exchange yields a value of the object's type");
  OBLIGE(n.rhs->kind == ND_CAST && n.rhs->lhs == &val && n.rhs->ty->kind == ot->kind && n.rhs->ty->size == ot->size && n.rhs->ty->is_unsigned == ot->is_unsigned, "C16.4 the value to store is converted to the object's type");
#else
  n.kind = ND_CAS; n.cas_addr = &obj; n.cas_old = &old; n.cas_new = &val;
  add_type(&n);
  REACH("returns");
  OBLIGE(n.ty == ty_bool, "C16.4 compare-exchange yields _Bool");
  OBLIGE(n.cas_new->kind == ND_CAST && n.cas_new->lhs == &val && n.cas_new->ty->kind == ot->kind && n.cas_new->ty->size == ot->size && n.cas_new->ty->is_unsigned == ot->is_unsigned, "C16.4 the new value is converted to the object's type");
#endif
}
