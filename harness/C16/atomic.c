// C16.1/.2  compare-and-swap and exchange sequences through real gen_expr (ND_CAS / ND_EXCH) on the ghost memory.
// Object size SZ concrete per job (selects register names); addresses, memory, operands symbolic.
// Sequential semantics + "exactly one locked read-modify-write touches the object": interleavings are not explored.
#include "cg_harness.h"
void harness(void) {
  cg_init();
  Node pa = {0}, po = {0}, nv = {0}, n = {0};
  Type OT = {SZ == 1 ? TY_CHAR : SZ == 2 ? TY_SHORT : SZ == 4 ? TY_INT : TY_LONG, SZ, SZ, UNS};
  Type PT = {TY_PTR, 8, 8, 1}; PT.base = &OT;
  IN(uint64_t, a_off); IN(uint64_t, o_off); IN(uint64_t, newv); IN(int, probe);
  ASSUME(a_off >= 16 && a_off <= 64 && a_off % SZ == 0);
  ASSUME(o_off >= 96 && o_off <= 128 && o_off % SZ == 0);       /* expected-value object disjoint from the atomic object */
  ASSUME(0 <= probe && probe < GM_DM);
  SpecTy ot = {SZ, UNS, 0};
  ASSUME(spec_canon(ot, (int64_t)newv));
  cg_node(&pa, ND_NULL_EXPR, &PT); cg_node(&po, ND_NULL_EXPR, &PT); cg_node(&nv, ND_NULL_EXPR, &OT);
  cg_child[0] = &pa; cg_child[1] = &po; cg_child[2] = &nv;
  cg_val[0] = GM_DM_BASE + a_off; cg_val[1] = GM_DM_BASE + o_off; cg_val[2] = newv;
  uint64_t cur = 0, exp = 0, mk = SZ == 8 ? ~0UL : ((1UL << (8 * SZ)) - 1);
  for (int i = 0; i < 8; i++) if (i < SZ) { cur |= (uint64_t)gm_dm[a_off + i] << (8 * i); exp |= (uint64_t)gm_dm[o_off + i] << (8 * i); }
  unsigned char before = gm_dm[probe];
#if EXCH
  cg_node(&n, ND_EXCH, &OT); n.lhs = &pa; n.rhs = &nv;
  cg_val[CG_NCHILD] = (uint64_t)spec_conv(ot, (int64_t)cur);      /* returns the previous contents, as a value of the object type */
#else
  cg_node(&n, ND_CAS, &CGT[TI_BOOL]); n.cas_addr = &pa; n.cas_old = &po; n.cas_new = &nv;
  cg_val[CG_NCHILD] = cur == exp;
#endif
  cg_root = &n;
  CG_ENTRY_STATE(1);
  (void)verif_val(0); (void)cg_holds(&OT, 0); (void)cg_x87_delta(&OT);
  gen_expr(&n);
  REACH("gen_expr returns");
  uint64_t cur2 = 0, exp2 = 0;
  for (int i = 0; i < 8; i++) if (i < SZ) { cur2 |= (uint64_t)gm_dm[a_off + i] << (8 * i); exp2 |= (uint64_t)gm_dm[o_off + i] << (8 * i); }
  _Bool in_a = (uint64_t)probe >= a_off && (uint64_t)probe < a_off + SZ, in_o = (uint64_t)probe >= o_off && (uint64_t)probe < o_off + SZ;
  OBLIGE(m.locked_writes == 1, "C16 exactly one locked read-modify-write instruction is executed");
#if EXCH
  OBLIGE(cur2 == (newv & mk), "C16.2 exchange stores the new value");
  OBLIGE(in_a || gm_dm[probe] == before, "C16.2 exchange touches only the atomic object");
#else
  OBLIGE(cur == exp ? cur2 == (newv & mk) : cur2 == cur, "C16.1 the object is replaced by the new value iff it equalled the expected value");
  OBLIGE(cur == exp ? exp2 == exp : exp2 == cur, "C16.1 on failure the expected-value object receives the object's current value, on success it is unchanged");
  OBLIGE(in_a || in_o || gm_dm[probe] == before, "C16.1 nothing but the two objects is written");
#endif
}
