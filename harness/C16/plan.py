from engine.core import Job
CG = dict(units=["type.c"], mode="dfcc", enforce="gen_expr", rec=True, replace=["gen_stmt"], cut=["error", "error_tok", "error_at", "warn_tok"],
          no_checks=["signed-overflow", "undefined-shift"], timeout=400)
META = dict(
    level="proof",
    claim="The emitted compare-and-swap and exchange sequences, executed on the ghost x86 machine for every object size, address, memory content and operand: exactly one locked read-modify-write instruction touches the object; CAS succeeds iff the object equals the expected value (at the object's width), then stores the new value, otherwise leaves the object unchanged and writes its current value into the expected-value object; exchange stores the new value and returns the previous contents as a value of the object's type; nothing else is written and the stack is balanced. Sequential semantics only.",
    note="Assumed: a lock-prefixed cmpxchg and xchg-with-memory are atomic on x86-64 (that is what makes the sequential facts imply linearizability); interleavings themselves are outside contract-based sequential verification. op= on an atomic object (integer or pointer) is rewritten to the compare-exchange retry loop with the original operator, and add_type converts the value operands of both primitives to the object's type. An _Atomic struct member takes the same retry-loop form. Not covered: stdatomic.h macros (atomic_fetch_* return the new value: seen, not repaired), atomic floating objects (op= does not terminate: seen, not repaired), atomic bit-fields.",
    functions=["codegen.c:gen_expr", "codegen.c:reg_ax", "codegen.c:reg_dx", "codegen.c:load", "parse.c:to_assign", "type.c:add_type"],
    trusted_base=["CBMC 6.11", "spec/x86_ghost.h", "x86-64 atomicity of lock cmpxchg / xchg"],
    assumptions=["operands are abstract side-effect-free expressions", "lock-prefixed RMW instructions are atomic"],
)
def jobs(tier):
    js = []
    for sz in (1, 2, 4, 8):
        for uns in (0, 1):
            for ex in (0, 1):
                js.append(Job(name=f"{'exch' if ex else 'cas'}-{sz}-{'u' if uns else 's'}", src="atomic.c", group="C16 atomic primitives",
                              defs={"SZ": str(sz), "UNS": str(uns), "EXCH": str(ex)},
                              sample=f"{'exchange' if ex else 'compare-and-swap'} on a {sz}-byte {'unsigned' if uns else 'signed'} object", **CG))
    for ex in (0, 1):
        js.append(Job(name=f"atomtype-{'exch' if ex else 'cas'}", src="atomtype.c", group="C16.4 typing of the primitives", defs={"EXCH": str(ex)}, units=["parse.c"], mode="plain",
                      cut=["error", "error_tok", "error_at", "warn_tok"], timeout=180, replay=None, sample=f"add_type on {'ND_EXCH' if ex else 'ND_CAS'} for every object/value type pair"))
    for k in ("ND_ADD", "ND_SUB", "ND_BITAND", "ND_SHL"):
        js.append(Job(name=f"toassign-atomic-{k}", src="../C01/toassign.c", group="C16.3 op= on an atomic object", defs={"KIND": k, "FORM": "2"}, units=["type.c", "hashmap.c", "strings.c"], mode="plain",
                      cut=["error", "error_tok", "error_at", "warn_tok"], havoc=["format"], cut_defined=["rehash"], timeout=180, unwind=20, replay=None,
                      sample=f"to_assign(A {k}= B) with an _Atomic A (integer or pointer object): compare-exchange retry loop"))
        js.append(Job(name=f"toassign-atomic-member-{k}", src="../C01/toassign.c", group="C16.3 op= on an atomic object", defs={"KIND": k, "FORM": "3"}, units=["type.c", "hashmap.c", "strings.c"], mode="plain",
                      cut=["error", "error_tok", "error_at", "warn_tok"], havoc=["format"], cut_defined=["rehash"], timeout=180, unwind=20, replay=None,
                      sample=f"to_assign(A {k}= B) with an _Atomic member S.x: compare-exchange retry loop"))
    return js
