from engine.core import Job
META = dict(
    level="other",
    claim="Conditional-inclusion skipping and include search order on the real preprocess.c: skip_line returns the next line start (extra tokens ignored); real preprocess2 (with the real skip_cond_incl/skip_cond_incl2/skip_line/push_cond_incl) passes through exactly the groups C11 6.10.1 selects on four concrete directive skeletons (ifndef/else, nested ifdef/ifndef, doubly nested inside a skipped group, if/elif/else) for all symbolic 64-bit controlling values; push_cond_incl records a group as taken iff the full 64-bit value is non-zero; search_include_paths returns the first existing candidate in directory order and positions #include_next after it, search_include_next continues from there, for every existence pattern over 4 directories; the #include arm of preprocess2 (real read_include_filename/join_tokens/copy_line) tries the includer's directory first for the quote form and never for the angle form, whichever way the form was produced (literal or macro), for every existence pattern, and an operand that is no file name form is diagnosed; detect_include_guard reports a guard only for files that are one #ifndef group without #else/#elif whose #endif ends the file, on every sequence of up to 4 (thorough: 5) text/directive lines after three prologues; parse_args + add_default_include_paths build the search list as -I, default/system, -idirafter directories for every mix of three options.",
    note="Bounded (4 tokens / 4 directories / four directive skeletons); skip_cond_incl on SYMBOLIC token lists is not covered (tool limit) - it runs inside the concrete skeletons only. Assumed: format() yields the i-th candidate path, file_exists is a pure predicate of an unchanging file system, the include memo table is empty (first lookup). Not covered: #if expression post-processing (defined, identifiers to 0; value folding is C07), include_file's use of the guard/pragma-once tables, include guard detection, -idirafter ordering in main.c.",
    functions=["preprocess.c:read_include_filename", "preprocess.c:join_tokens", "preprocess.c:copy_line", "preprocess.c:detect_include_guard", "main.c:parse_args", "main.c:add_default_include_paths", "preprocess.c:preprocess2", "preprocess.c:push_cond_incl", "preprocess.c:skip_cond_incl", "preprocess.c:skip_cond_incl2", "preprocess.c:skip_line", "preprocess.c:is_hash", "preprocess.c:search_include_paths", "preprocess.c:search_include_next"],
    trusted_base=["CBMC 6.11"],
    assumptions=["ghost format()/file_exists()", "empty include cache", "eval_const_expr/find_macro/expand_macro are stand-in stubs (calls redirected): they yield the symbolic value of each directive and consume its line", "equal(tok, s) holds iff the token's spelling is s (ghost stub of tokenize.c equal)"],
    explanation="bounded symbolic harnesses on real preprocess.c functions against spec scanners",
)
CUT = ["error", "error_tok", "error_at", "verror_at"]
def jobs(tier):
    P = dict(mode="plain", cut=CUT, havoc=["warn_tok"], timeout=300, replay=None)
    PC = dict(P); PC["cut"] = ["error", "error_at", "verror_at"]
    return [
        Job(name="skip_line", src="skip.c", group="C10.1 trailing tokens", defs={"FN": "0", "NT": "4"}, unwind=12, bounded="token lists of 4 tokens", sample="skip_line on every 4-token list with symbolic line-start flags", **P),
        # skip_cond_incl / skip_cond_incl2 (recursive over the token list) are NOT run: symbolic execution of the recursion over a
        # symbolic token list did not finish for lists of 4 tokens, neither inlined (path explosion after the recursive call
        # returns a merged pointer) nor under a DFCC recursive contract (SAT out of memory at 10 GB).  See DESIGN.md I.4.
        # real preprocess2 on concrete directive skeletons with symbolic controlling values.  Explored path by path
        # (cbmc --paths lifo): every path is concrete, whereas merged symbolic execution did not finish.
        Job(name="cond-ifndef-else", src="cond.c", group="C10.3 taken-branch bookkeeping", defs={"SCEN": "0"}, unwind=40, cbmc_flags=["--paths lifo"],
            redirect={"eval_const_expr": "stub_eval_const_expr", "find_macro": "stub_find_macro", "expand_macro": "stub_expand_macro"},
            bounded="concrete directive skeleton, symbolic controlling values", sample="#ifndef A / #else / #endif, then #ifdef B / #endif", **P),
        Job(name="cond-nested-ifdef", src="cond.c", group="C10.3 taken-branch bookkeeping", defs={"SCEN": "1"}, unwind=40, cbmc_flags=["--paths lifo"],
            redirect={"eval_const_expr": "stub_eval_const_expr", "find_macro": "stub_find_macro", "expand_macro": "stub_expand_macro"},
            bounded="concrete directive skeleton, symbolic controlling values", sample="#ifdef A { #ifndef B / #else / #endif } #else / #endif", **P),
        Job(name="cond-nested2", src="cond.c", group="C10.3 taken-branch bookkeeping", defs={"SCEN": "2"}, unwind=40, cbmc_flags=["--paths lifo"],
            redirect={"eval_const_expr": "stub_eval_const_expr", "find_macro": "stub_find_macro", "expand_macro": "stub_expand_macro"},
            bounded="concrete directive skeleton, symbolic controlling values", sample="#ifdef A { #ifdef B { #ifndef C } } #else / #endif: doubly nested inside a skipped group", **P),
        Job(name="cond-if-elif", src="cond.c", group="C10.3 taken-branch bookkeeping", defs={"SCEN": "3"}, unwind=40, cbmc_flags=["--paths lifo"],
            redirect={"eval_const_expr": "stub_eval_const_expr", "find_macro": "stub_find_macro", "expand_macro": "stub_expand_macro"},
            bounded="concrete directive skeleton, symbolic controlling values", sample="#if A / #elif B / #else / #endif with 64-bit values", **P),
        Job(name="push_cond_incl", src="cond.c", group="C10.3 taken-branch bookkeeping", defs={"SCEN": "9"}, mode="plain", cut=CUT, havoc=["warn_tok"], unwind=8, timeout=300, replay=None,
            bounded="single call", sample="push_cond_incl with every 64-bit controlling value"),
        *[Job(name=f"include-form{f}", src="incl.c", group="C10.5 include search order", defs={"FORM": str(f)}, unwind=12, cbmc_flags=["--paths lifo"],
              redirect={"include_file": "stub_include_file", "expand_macro": "stub_expand_macro"},
              bounded="one directive per form, 2 search directories, symbolic file system", sample=["#include \"x.h\"", "#include <x.h>", "#include M with M -> <x.h>", "#include M with M -> \"x.h\""][f] + " with every existence pattern", **P) for f in range(4)],
        Job(name="include-two-dirs", src="incl2.c", group="C10.5 include search order", unwind=12, cbmc_flags=["--paths lifo"],
            redirect={"include_file": "stub_include_file", "expand_macro": "stub_expand_macro"}, bounded="two directives in files of two directories, 2 search directories", sample="two #include \"x.h\" directives standing in files of different directories", **P),
        Job(name="include-not-a-name", src="incl.c", group="C10.5 include search order", defs={"FORM": "4"}, unwind=12, cbmc_flags=["--paths lifo"],
            redirect={"include_file": "stub_include_file", "expand_macro": "stub_expand_macro"}, bounded="one directive", sample="#include foo (not a macro)", **dict(P, cut=["error", "error_at", "verror_at"])),
        *[Job(name=f"include-guard-pro0-k{k0}{k1}", src="guard.c", group="C10.6 re-inclusion shortcuts", defs={"PRO": "0", "NL": "4", "K0": str(k0), "K1": str(k1)}, unwind=24, cbmc_flags=["--paths lifo"],
              bounded="files of a guard prologue + at most 4 directive/text lines", sample="detect_include_guard on every sequence of up to 4 lines from {text,#if,#ifdef,#else,#elif,#endif} after #ifndef X/#define X", **P)
          for k0 in range(6) for k1 in range(6)],
        *[Job(name=f"include-guard-pro{g}", src="guard.c", group="C10.6 re-inclusion shortcuts", defs={"PRO": str(g), "NL": "3"}, unwind=24, cbmc_flags=["--paths lifo"],
              bounded="files of a guard prologue + at most 3 directive/text lines", sample="detect_include_guard on every sequence of up to 3 lines after " + ["", "#ifndef X/#define Y", "text/#ifndef X/#define X"][g], **P)
          for g in (1, 2)],
        *([Job(name=f"include-guard5-k{k0}{k1}", src="guard.c", group="C10.6 re-inclusion shortcuts", defs={"PRO": "0", "NL": "5", "K0": str(k0), "K1": str(k1)}, unwind=24, cbmc_flags=["--paths lifo"], tier="thorough",
               bounded="files of a guard prologue + 5 directive/text lines", sample="detect_include_guard, 5 lines", **dict(P, timeout=900)) for k0 in range(6) for k1 in range(6)] if tier == "thorough" else []),
        Job(name="cmdline-search-order", src="cmdline.c", group="C10.7 command-line ordering", defs={"NS": "3"}, units=["strings.c"], unwind=40, cbmc_flags=["--paths lifo"],
            bounded="3 option slots (-I<dir> | -idirafter <dir> | none)", sample="parse_args + add_default_include_paths on every mix of -I and -idirafter options", **P),
        Job(name="search_include", src="search.c", group="C10.5 include search order", unwind=8, bounded="4 include directories", sample="search_include_paths/next over every existence pattern of 4 directories", **P),
    ]
