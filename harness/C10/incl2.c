// C10.5  the including file's directory is that of the file the directive stands in - per directive: two quote-form
// #include directives, the first in d/m.c and the second in a file of another directory (e/n.c), symbolic file system.
// Real #include arm of preprocess2 with the real read_include_filename/search_include_paths; stand-in: include_file
// (records the path); ghost format()/file_exists()/dirname().
#include "verif.h"
#include "preprocess.c"
#define NP 2
StringArray include_paths; char *base_file; bool opt_fpic; bool opt_fcommon;
static char P[NP][4], LOCAL1[4], LOCAL2[4], DN1[2], DN2[2]; _Bool EX[NP], EXL1, EXL2;
static char *dirs[NP];
char *dirname(char *p) { return p[0] == 'd' ? DN1 : DN2; }
char *format(char *fmt, ...) {
  va_list ap; va_start(ap, fmt); char *a = va_arg(ap, char *); va_end(ap);
  if (a == DN1) return LOCAL1; if (a == DN2) return LOCAL2;
  for (int i = 0; i < NP; i++) if (a == dirs[i]) return P[i];
  return 0;
}
bool file_exists(char *path) { if (path == LOCAL1) return EXL1; if (path == LOCAL2) return EXL2; for (int i = 0; i < NP; i++) if (path == P[i]) return EX[i]; return 0; }
void *hashmap_get(HashMap *map, char *key) { return 0; }
void hashmap_put(HashMap *map, char *key, void *val) { }
char *strdup(const char *s) { size_t n = strlen(s); char *p = malloc(n + 1); for (size_t i = 0; i <= n; i++) p[i] = s[i]; return p; }
char *strndup(const char *s, size_t n) { char *p = malloc(n + 1); for (size_t i = 0; i < n; i++) p[i] = s[i]; p[n] = 0; return p; }
bool equal(Token *tok, char *op) { size_t n = strlen(op); return (size_t)tok->len == n && !memcmp(tok->loc, op, n); }
static Token T[8]; static File F1, F2;
static char *inc_path[2]; static int ninc;
Token *stub_include_file(Token *tok, char *path, Token *filename_tok) { if (ninc < 2) inc_path[ninc] = path; ninc++; return tok; }
bool stub_expand_macro(Token **rest, Token *tok) { return 0; }
static void mk(Token *t, TokenKind k, char *s, _Bool bol, Token *next, File *f) { *t = (Token){0}; t->kind = k; t->loc = s; t->len = (int)strlen(s); t->at_bol = bol; t->next = next; t->file = f; }
_Bool nondet_bool_(void);
void harness(void) {
  dirs[0] = "a"; dirs[1] = "b";
  include_paths.data = dirs; include_paths.len = NP; include_paths.capacity = NP;
  F1.name = "d/m.c"; F1.file_no = 1; F1.contents = ""; F2.name = "e/n.c"; F2.file_no = 2; F2.contents = "";
  EXL1 = nondet_bool_(); EXL2 = nondet_bool_(); for (int i = 0; i < NP; i++) EX[i] = nondet_bool_();
  ASSUME(EXL1 | EXL2 | EX[0] | EX[1]);
  ASSUME((EXL1 | EX[0] | EX[1]) & (EXL2 | EX[0] | EX[1]));      /* both directives find the file somewhere ('cannot open' is include_file's diagnostic) */
  mk(&T[0], TK_PUNCT, "#", 1, &T[1], &F1); mk(&T[1], TK_IDENT, "include", 0, &T[2], &F1); mk(&T[2], TK_STR, "\"x.h\"", 0, &T[3], &F1);
  mk(&T[3], TK_PUNCT, "#", 1, &T[4], &F2); mk(&T[4], TK_IDENT, "include", 0, &T[5], &F2); mk(&T[5], TK_STR, "\"x.h\"", 0, &T[6], &F2);
  mk(&T[6], TK_EOF, "", 1, &T[6], &F1);
  cond_incl = 0; include_next_idx = 0; ninc = 0;
  Token *out = preprocess2(&T[0]);
  REACH("returns");
  char *srch = EX[0] ? P[0] : P[1];
  OBLIGE(ninc == 2, "C10.5 each #include directive includes one file");
  OBLIGE(inc_path[0] == (EXL1 ? LOCAL1 : srch), "C10.5 the first directive looks next to ITS file first");
  OBLIGE(inc_path[1] == (EXL2 ? LOCAL2 : srch), "C10.5 a later directive in a file of another directory looks next to THAT file first, not next to the first includer");
  (void)out;
}
