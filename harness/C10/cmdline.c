// C10.7  command-line search path order: real main.c parse_args followed by add_default_include_paths (the order in
// which main() calls them for the compiler proper, main.c main) on every command line made of NS option slots, each
// either "-I<dir>" or "-idirafter <dir>" (order and mix concretised path by path), followed by an input file.
// The resulting search list must be: the -I directories in command-line order, then the default/system directories,
// then the -idirafter directories in command-line order (the property's "-I, system and -idirafter in that order").
#include "verif.h"
#include "main.c"
#ifndef NS
#define NS 3
#endif
static char INCD[] = "INC", DN[] = "D";
char *dirname(char *p) { return DN; }
char *format(char *fmt, ...) { return INCD; }
char *strdup(const char *s) { size_t n = strlen(s); char *p = malloc(n + 1); for (size_t i = 0; i <= n; i++) p[i] = s[i]; return p; }
void exit(int code) { ASSUME(0); }
int fprintf(FILE *f, const char *fmt, ...) { return 0; }
int nondet_int_(void);
void harness(void) {
  static char I0[] = "-Ia0", I1[] = "-Ia1", I2[] = "-Ia2", A[] = "-idirafter", Z0[] = "z0", Z1[] = "z1", Z2[] = "z2", X[] = "x.c", P0[] = "chibicc";
  char *Iopt[3] = {I0, I1, I2}, *Zdir[3] = {Z0, Z1, Z2};
  char *argv[2 * NS + 3]; int argc = 0; argv[argc++] = P0;
  char *wantI[NS], *wantZ[NS]; int nI = 0, nZ = 0;
  for (int s = 0; s < NS; s++) {
    switch (nondet_int_()) {
    case 0: argv[argc++] = Iopt[s]; wantI[nI++] = Iopt[s] + 2; break;
    case 1: argv[argc++] = A; argv[argc++] = Zdir[s]; wantZ[nZ++] = Zdir[s]; break;
    default: break;      /* slot unused */
    }
  }
  argv[argc++] = X; argv[argc] = 0;
  include_paths = (StringArray){0}; input_paths = (StringArray){0}; std_include_paths = (StringArray){0};
  parse_args(argc, argv);
  add_default_include_paths(argv[0]);
  REACH("returns");
  _Bool ok = include_paths.len == nI + 4 + nZ;
  if (ok) {
    for (int i = 0; i < nI; i++) ok &= include_paths.data[i] == wantI[i];
    ok &= include_paths.data[nI] == INCD;
    ok &= !strcmp(include_paths.data[nI + 1], "/usr/local/include");
    ok &= !strcmp(include_paths.data[nI + 2], "/usr/include/x86_64-linux-gnu");
    ok &= !strcmp(include_paths.data[nI + 3], "/usr/include");
    for (int i = 0; i < nZ; i++) ok &= include_paths.data[nI + 4 + i] == wantZ[i];
  }
  OBLIGE(ok, "C10.7 the include search list is: -I directories, default and system directories, -idirafter directories, each group in command-line order");
  OBLIGE(input_paths.len == 1 && input_paths.data[0] == X, "C10.7 option arguments are not taken for input files");
}
