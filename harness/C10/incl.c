// C10.5  #include resolution: the real #include arm of preprocess2 with the real read_include_filename, join_tokens,
// copy_line, skip_line and search_include_paths, on the four forms of the directive
//   FORM 0  #include "x.h"        FORM 1  #include <x.h>
//   FORM 2  #include M   with M -> <x.h>      FORM 3  #include M   with M -> "x.h"
// with a symbolic file system (the file exists or not next to the includer and in each of NP search directories).
// The file handed to include_file must be the one C11 6.10.2 / the property's search order selects: the includer's
// directory is tried first for the quote form and NEVER for the angle form - whichever way the form was written -, then
// the search directories in order; the name is the spelling between the delimiters; the rest of the line is skipped.
// Stand-ins (calls redirected): include_file (records the path), expand_macro (M -> the form's tokens); ghost
// format()/file_exists()/dirname().
#include "verif.h"
#include "preprocess.c"
#define NP 2
StringArray include_paths; char *base_file; bool opt_fpic; bool opt_fcommon;
static char P[NP][4]; static char LOCALP[4]; static char DIRN[2]; _Bool EX[NP], EXL; static _Bool name_ok, name_seen;
static char *dirs[NP];
char *dirname(char *p) { return DIRN; }
char *format(char *fmt, ...) {
  va_list ap; va_start(ap, fmt); char *a = va_arg(ap, char *); char *b = va_arg(ap, char *); va_end(ap);
  name_seen = 1; name_ok = b[0] == 'x' && b[1] == '.' && b[2] == 'h' && b[3] == 0;
  if (a == DIRN) return LOCALP;
  for (int i = 0; i < NP; i++) if (a == dirs[i]) return P[i];
  return 0;
}
bool file_exists(char *path) { if (path == LOCALP) return EXL; for (int i = 0; i < NP; i++) if (path == P[i]) return EX[i]; return 0; }
void *hashmap_get(HashMap *map, char *key) { return 0; }
void hashmap_put(HashMap *map, char *key, void *val) { }
char *strdup(const char *s) { size_t n = strlen(s); char *p = malloc(n + 1); for (size_t i = 0; i <= n; i++) p[i] = s[i]; return p; }
char *strndup(const char *s, size_t n) { char *p = malloc(n + 1); for (size_t i = 0; i < n; i++) p[i] = s[i]; p[n] = 0; return p; }
bool equal(Token *tok, char *op) { size_t n = strlen(op); return (size_t)tok->len == n && !memcmp(tok->loc, op, n); }
#define NT 12
static Token T[NT], E[6]; static File F;
static char *inc_path; static int ninc; static Token *inc_rest;
Token *stub_include_file(Token *tok, char *path, Token *filename_tok) { inc_path = path; ninc++; inc_rest = tok; return tok; }
static void mk(Token *t, TokenKind k, char *s, _Bool bol, Token *next) { *t = (Token){0}; t->kind = k; t->loc = s; t->len = (int)strlen(s); t->at_bol = bol; t->next = next; t->file = &F; }
static int fill_form(Token *t, Token *after, int form) {   /* writes the tokens of a file-name form, returns their number */
  if (form == 0) { mk(&t[0], TK_STR, "\"x.h\"", 0, after); return 1; }
  mk(&t[0], TK_PUNCT, "<", 0, &t[1]); mk(&t[1], TK_IDENT, "x", 0, &t[2]); mk(&t[2], TK_PUNCT, ".", 0, &t[3]); mk(&t[3], TK_IDENT, "h", 0, &t[4]); mk(&t[4], TK_PUNCT, ">", 0, after);
  return 5;
}
static int nexp;
#if FORM == 4
// FORM 4  #include foo  where foo is not a macro: not a file name form.  It must be diagnosed; the operand is re-read at
// most once (on the pinned tree read_include_filename re-expanded the same identifier without end and the front end died).
void error_tok(Token *tok, char *fmt, ...) { REACH("diagnosed"); ASSUME(0); }
#endif
bool stub_expand_macro(Token **rest, Token *tok) {
  if (tok->kind == TK_IDENT && tok->len == 1 && tok->loc[0] == 'M') { fill_form(E, tok->next, FORM == 2 ? 1 : 0); *rest = &E[0]; return 1; }
  if (!(tok->kind == TK_IDENT && tok->len == 3 && tok->loc[0] == 'f')) return 0;     /* only the operand 'foo' is counted */
  nexp++;
  OBLIGE(nexp <= 4, "C10.5 an #include operand that is neither a file name form nor expands to one is diagnosed, not re-expanded without end");
  ASSUME(nexp <= 4);
  return 0;
}
_Bool nondet_bool_(void);
void harness(void) {
  dirs[0] = "a"; dirs[1] = "b";
  include_paths.data = dirs; include_paths.len = NP; include_paths.capacity = NP;
  F.name = "d/m.c"; F.file_no = 1; F.contents = "";
  EXL = nondet_bool_(); for (int i = 0; i < NP; i++) EX[i] = nondet_bool_();
  mk(&T[0], TK_PUNCT, "#", 1, &T[1]); mk(&T[1], TK_IDENT, "include", 0, &T[2]);
  int n;
  if (FORM <= 1) n = fill_form(&T[2], 0, FORM); else { mk(&T[2], TK_IDENT, FORM == 4 ? "foo" : "M", 0, 0); n = 1; }
  Token *m0 = &T[2 + n], *eof = &T[3 + n];
  T[1 + n].next = m0; mk(m0, TK_IDENT, "m0", 1, eof); mk(eof, TK_EOF, "", 1, eof);
  cond_incl = 0; include_next_idx = 0; ninc = 0; nexp = 0; inc_path = 0; name_seen = 0; name_ok = 0;
  Token *out = preprocess2(&T[0]);
#if FORM == 4
  OBLIGE(0, "C10.5 an #include operand that is not a file name form does not include anything");
#else
  REACH("returns");
  _Bool quote = (FORM == 0 || FORM == 3);
  char *want = (quote && EXL) ? LOCALP : EX[0] ? P[0] : EX[1] ? P[1] : (char *)0;   /* 0: found nowhere - the bare name goes to include_file, which diagnoses it */
  OBLIGE(ninc == 1, "C10.5 one #include directive includes one file");
  _Bool bare = inc_path != 0 && inc_path != LOCALP && inc_path != P[0] && inc_path != P[1] && inc_path[0] == 'x' && inc_path[1] == '.' && inc_path[2] == 'h' && inc_path[3] == 0;
  OBLIGE(want ? inc_path == want : bare, "C10.5 the quote form tries the including file's directory first, the angle form never does (also when a macro produced the form); then the search directories in order");
  OBLIGE(name_seen && name_ok, "C10.5 the file name is the spelling between the delimiters");
  OBLIGE(inc_rest == m0 && out == m0 && m0->next == eof, "C10.5 the rest of the directive line is skipped and the following text is processed");
#endif
}
