// C10.6  re-inclusion shortcut: the real detect_include_guard (with the real skip_cond_incl/skip_cond_incl2/is_hash) on
// EVERY file of the shape   <prologue>  line_1 ... line_n   (n <= NL), where each line is one of
//   text | #if | #ifdef | #else | #elif | #endif
// and the prologue is  "#ifndef X / #define X"  (PRO 0),  "#ifndef X / #define Y"  (PRO 1)  or  "m / #ifndef X / #define X" (PRO 2).
// Soundness of the shortcut (the property: it never changes the token stream relative to textual inclusion): if a guard
// name is returned, then the whole file is one #ifndef group without #else/#elif of its own, i.e. with the name defined a
// second inclusion contributes no token.  An independent recogniser (depth counting, below) is the specification.
// The line kinds are concretised path by path (cbmc --paths lifo): 6^1+...+6^NL files per prologue.
#include "verif.h"
#include "preprocess.c"
#ifndef NL
#define NL 5
#endif
StringArray include_paths; char *base_file; bool opt_fpic; bool opt_fcommon;
bool file_exists(char *p) { return 0; }
char *strndup(const char *s, size_t n) { char *p = malloc(n + 1); for (size_t i = 0; i < n; i++) p[i] = s[i]; p[n] = 0; return p; }
bool equal(Token *tok, char *op) { size_t n = strlen(op); return (size_t)tok->len == n && !memcmp(tok->loc, op, n); }
#define NT (8 + 2 * NL)
static Token T[NT]; static File F;
static void mk(Token *t, TokenKind k, char *s, _Bool bol) { *t = (Token){0}; t->kind = k; t->loc = s; t->len = (int)strlen(s); t->at_bol = bol; t->next = t + 1; t->file = &F; }
int nondet_int_(void);
static int pick6(void) { switch (nondet_int_()) { case 0: return 0; case 1: return 1; case 2: return 2; case 3: return 3; case 4: return 4; default: return 5; } }
void harness(void) {
  int n; switch (nondet_int_()) { case 1: n = 1; break; case 2: n = 2; break; case 3: n = 3; break; case 4: n = 4; break; default: n = NL; }
  if (n > NL) n = NL;
  int K[NL];
  for (int i = 0; i < NL; i++) {
    K[i] = 0;
    if (i >= n) continue;            /* lines beyond n do not exist: no case split for them */
#ifdef K0
    if (i == 0) { K[0] = K0; continue; }      /* case split over the first line(s): jobs run in parallel */
#endif
#ifdef K1
    if (i == 1) { K[1] = K1; continue; }
#endif
    K[i] = pick6();
  }
  static char *kw[6] = {"m", "if", "ifdef", "else", "elif", "endif"};
  Token *t = T;
  if (PRO == 2) mk(t++, TK_IDENT, "m", 1);
  mk(t++, TK_PUNCT, "#", 1); mk(t++, TK_IDENT, "ifndef", 0); mk(t++, TK_IDENT, "X", 0);
  mk(t++, TK_PUNCT, "#", 1); mk(t++, TK_IDENT, "define", 0); mk(t++, TK_IDENT, PRO == 1 ? "Y" : "X", 0);
  for (int i = 0; i < n; i++) {
    if (K[i] == 0) { mk(t++, TK_IDENT, "m", 1); mk(t++, TK_IDENT, "m", 0); }
    else { mk(t++, TK_PUNCT, "#", 1); mk(t++, TK_IDENT, kw[K[i]], 0); }
  }
  mk(t, TK_EOF, "", 1); t->next = t;
  // specification: the guard's own #endif is the last line, nothing of the guard's own level is an #else/#elif
  int d = 1, closed_at = -1; _Bool guarded = (PRO == 0), wf = 1;
  for (int i = 0; i < n; i++) {
    if (closed_at >= 0) guarded = 0;                                   /* anything after the guard's #endif */
    if (K[i] == 1 || K[i] == 2) d++;
    else if (K[i] == 3 || K[i] == 4) { if (d == 0) wf = 0; else if (d == 1 && closed_at < 0) guarded = 0; }
    else if (K[i] == 5) { if (d == 0) wf = 0; else { d--; if (d == 0 && closed_at < 0) closed_at = i; } }
  }
  if (closed_at != n - 1) guarded = 0;
  if (d != 0) wf = 0;                   /* unterminated: diagnosed when the file is processed */
  char *g = detect_include_guard(&T[0]);
  REACH("returns");
  OBLIGE(!wf || g == 0 || guarded, "C10.6 a file is treated as guarded only if all of it is one #ifndef group without #else/#elif of its own");
  OBLIGE(g == 0 || (g[0] == 'X' && g[1] == 0), "C10.6 the recorded guard is the macro tested by the opening #ifndef");
}
