// C10.1/.2  trailing-token skipping and skipping of untaken groups: real skip_line / skip_cond_incl on every token
// list of NT tokens (kinds drawn from the directive alphabet, symbolic beginning-of-line flags) against a spec scanner.
// Bounded: NT tokens.
#include "verif.h"
#include "preprocess.c"
#ifndef NT
#define NT 6
#endif
// token alphabet: 0 '#', 1 if, 2 ifdef, 3 ifndef, 4 elif, 5 else, 6 endif, 7 other
static char *spell(int k) { switch (k) { case 0: return "#"; case 1: return "if"; case 2: return "ifdef"; case 3: return "ifndef"; case 4: return "elif"; case 5: return "else"; case 6: return "endif"; default: return "x"; } }
static int slen(int k) { switch (k) { case 0: return 1; case 1: return 2; case 2: return 5; case 3: return 6; case 4: return 4; case 5: return 4; case 6: return 5; default: return 1; } }
Token T[NT + 1]; int K[NT + 1];
// equal(tok, s) <=> the token's spelling is s: ghost version over the token alphabet (the real tokenize.c equal is a
// memcmp of the spelling; it is not part of this unit).  Keeps the spelling pointers out of the solver.
static int code(char *op) {   /* op is always one of the literals below */
  if (op[0] == '#') return 0;
  if (op[0] == 'i') return op[2] == 0 ? 1 : op[2] == 'd' ? 2 : 3;       /* if / ifdef / ifndef */
  if (op[0] == 'e') return op[1] == 'n' ? 6 : op[2] == 'i' ? 4 : 5;     /* endif / elif / else */
  return 99;
}
bool equal(Token *tok, char *op) { int i = (int)(tok - T); return i >= 0 && i <= NT && K[i] == code(op); }
int nondet_int_(void); _Bool nondet_bool_(void);
static _Bool hash_at(int i) { return i < NT && K[i] == 0 && T[i].at_bol; }
// spec of skip_cond_incl2: from position i inside a nested conditional, the position just after the #endif that closes
// it (nested conditionals inside are matched by a depth counter); NT (the EOF token) if it is never closed.
static int spec2(int i) {
  int depth = 0;
  for (int step = 0; step <= NT + 1; step++) {
    if (i >= NT) return NT;
    if (hash_at(i) && i + 1 < NT && (K[i + 1] == 1 || K[i + 1] == 2 || K[i + 1] == 3)) { depth++; i += 2; continue; }
    if (hash_at(i) && i + 1 < NT && K[i + 1] == 6) { if (depth == 0) return i + 2; depth--; i += 2; continue; }
    if (hash_at(i) && i + 1 == NT) { i++; continue; }
    i++;
  }
  return NT;
}
static Token *skip_cond_incl2(Token *tok)
__CPROVER_requires(tok >= &T[0] && tok <= &T[NT])
__CPROVER_assigns()
__CPROVER_ensures(__CPROVER_return_value == &T[spec2((int)(tok - T))]);
void harness(void) {
  for (int i = 0; i < NT; i++) {
    int k = nondet_int_(); ASSUME(0 <= k && k <= 7); K[i] = k;
    T[i] = (Token){0}; T[i].kind = k == 0 ? TK_PUNCT : TK_IDENT; T[i].loc = spell(k); T[i].len = slen(k);
    T[i].at_bol = nondet_bool_(); T[i].next = &T[i + 1];
  }
  K[NT] = 7; T[NT] = (Token){0}; T[NT].kind = TK_EOF; T[NT].at_bol = 1; T[NT].loc = ""; T[NT].len = 0; T[NT].next = 0;
#if FN == 2
  (void)spec2(0);
  IN(int, start); ASSUME(0 <= start && start <= NT);
  skip_cond_incl2(&T[start]);
  REACH("returns");
#elif FN == 0
  // skip_line: the first token at or after tok that begins a line (tokens before it on the directive line are ignored)
  int want = 0; while (want < NT && !T[want].at_bol) want++;
  Token *r = skip_line(&T[0]);
  REACH("returns");
  OBLIGE(r == &T[want], "C10.1 trailing tokens on a directive line are skipped up to the next line start");
#else
  // spec for skip_cond_incl: stop at the first #elif/#else/#endif at nesting depth 0; a nested conditional is skipped whole (spec2)
  int i = 0, want = NT;
  for (int step = 0; step <= NT + 1; step++) {
    if (i >= NT) { want = NT; break; }
    if (hash_at(i) && i + 1 < NT && (K[i + 1] == 1 || K[i + 1] == 2 || K[i + 1] == 3)) { i = spec2(i + 2); continue; }
    if (hash_at(i) && i + 1 < NT && (K[i + 1] == 4 || K[i + 1] == 5 || K[i + 1] == 6)) { want = i; break; }
    i++;
  }
  Token *r = skip_cond_incl(&T[0]);
  REACH("returns");
  OBLIGE(r == &T[want], "C10.2 an untaken group ends at the matching #elif/#else/#endif, nested conditionals are skipped whole");
#endif
}
