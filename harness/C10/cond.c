// C10.3  taken-branch bookkeeping: real preprocess.c preprocess2 (+ real push_cond_incl, skip_cond_incl,
// skip_cond_incl2, skip_line, is_hash) on CONCRETE directive skeletons whose controlling values are symbolic:
// eval_const_expr / find_macro / expand_macro are replaced by contracts that yield the symbolic truth value of each
// directive (64-bit for #if/#elif) and consume the directive line.  The set of marker tokens passed through must be
// exactly the set C11 6.10.1 selects: first group of a chain whose condition holds, else-group iff none held, nothing
// from skipped groups (including nested conditionals inside them), nesting restored after #endif.
#include "verif.h"
#include "preprocess.c"
StringArray include_paths; char *base_file; bool opt_fpic; bool opt_fcommon;
bool file_exists(char *p) { return 0; }
typedef struct { char *text; _Bool bol; } TS;
#if SCEN == 0
// #ifndef A / m0 / #else / m1 / #endif / m2 / #ifdef B / m3 / #endif
#define NSRC 16
static TS SRC[NSRC];
static void fill_src(void) { SRC[0].text = "#"; SRC[0].bol = 1; SRC[1].text = "ifndef"; SRC[1].bol = 0; SRC[2].text = "A"; SRC[2].bol = 0; SRC[3].text = "m0"; SRC[3].bol = 1; SRC[4].text = "#"; SRC[4].bol = 1; SRC[5].text = "else"; SRC[5].bol = 0; SRC[6].text = "m1"; SRC[6].bol = 1; SRC[7].text = "#"; SRC[7].bol = 1; SRC[8].text = "endif"; SRC[8].bol = 0; SRC[9].text = "m2"; SRC[9].bol = 1; SRC[10].text = "#"; SRC[10].bol = 1; SRC[11].text = "ifdef"; SRC[11].bol = 0; SRC[12].text = "B"; SRC[12].bol = 0; SRC[13].text = "m3"; SRC[13].bol = 1; SRC[14].text = "#"; SRC[14].bol = 1; SRC[15].text = "endif"; SRC[15].bol = 0; }
#define NV 2
#elif SCEN == 1
// #ifdef A / m0 / #ifndef B / m1 / #else / m2 / #endif / m3 / #else / m4 / #endif / m5
#define NSRC 20
static TS SRC[NSRC];
static void fill_src(void) { SRC[0].text = "#"; SRC[0].bol = 1; SRC[1].text = "ifdef"; SRC[1].bol = 0; SRC[2].text = "A"; SRC[2].bol = 0; SRC[3].text = "m0"; SRC[3].bol = 1; SRC[4].text = "#"; SRC[4].bol = 1; SRC[5].text = "ifndef"; SRC[5].bol = 0; SRC[6].text = "B"; SRC[6].bol = 0; SRC[7].text = "m1"; SRC[7].bol = 1; SRC[8].text = "#"; SRC[8].bol = 1; SRC[9].text = "else"; SRC[9].bol = 0; SRC[10].text = "m2"; SRC[10].bol = 1; SRC[11].text = "#"; SRC[11].bol = 1; SRC[12].text = "endif"; SRC[12].bol = 0; SRC[13].text = "m3"; SRC[13].bol = 1; SRC[14].text = "#"; SRC[14].bol = 1; SRC[15].text = "else"; SRC[15].bol = 0; SRC[16].text = "m4"; SRC[16].bol = 1; SRC[17].text = "#"; SRC[17].bol = 1; SRC[18].text = "endif"; SRC[18].bol = 0; SRC[19].text = "m5"; SRC[19].bol = 1; }
#define NV 2
#elif SCEN == 3
// #if A / m0 / #elif B / m1 / #else / m2 / #endif / m3
#define NSRC 14
static TS SRC[NSRC];
static void fill_src(void) { char *t[NSRC] = {"#","if","A","m0","#","elif","B","m1","#","else","m2","#","endif","m3"}; int b[NSRC] = {1,0,0,1,1,0,0,1,1,0,1,1,0,1}; for (int i = 0; i < NSRC; i++) { SRC[i].text = t[i]; SRC[i].bol = b[i]; } }
#define NV 2
#elif SCEN == 9
#define NSRC 1
static TS SRC[NSRC];
static void fill_src(void) { SRC[0].text = "#"; SRC[0].bol = 1; }
#define NV 0
#else
// #ifdef A / m0 / #ifdef B / m1 / #ifndef C / m2 / #endif / m3 / #endif / m4 / #else / m5 / #endif / m6     (doubly nested, skipped when A is false)
#define NSRC 24
static TS SRC[NSRC];
static void fill_src(void) { SRC[0].text = "#"; SRC[0].bol = 1; SRC[1].text = "ifdef"; SRC[1].bol = 0; SRC[2].text = "A"; SRC[2].bol = 0; SRC[3].text = "m0"; SRC[3].bol = 1; SRC[4].text = "#"; SRC[4].bol = 1; SRC[5].text = "ifdef"; SRC[5].bol = 0; SRC[6].text = "B"; SRC[6].bol = 0; SRC[7].text = "m1"; SRC[7].bol = 1; SRC[8].text = "#"; SRC[8].bol = 1; SRC[9].text = "ifndef"; SRC[9].bol = 0; SRC[10].text = "C"; SRC[10].bol = 0; SRC[11].text = "m2"; SRC[11].bol = 1; SRC[12].text = "#"; SRC[12].bol = 1; SRC[13].text = "endif"; SRC[13].bol = 0; SRC[14].text = "m3"; SRC[14].bol = 1; SRC[15].text = "#"; SRC[15].bol = 1; SRC[16].text = "endif"; SRC[16].bol = 0; SRC[17].text = "m4"; SRC[17].bol = 1; SRC[18].text = "#"; SRC[18].bol = 1; SRC[19].text = "else"; SRC[19].bol = 0; SRC[20].text = "m5"; SRC[20].bol = 1; SRC[21].text = "#"; SRC[21].bol = 1; SRC[22].text = "endif"; SRC[22].bol = 0; SRC[23].text = "m6"; SRC[23].bol = 1; }
#define NV 3
#endif
#define NTK NSRC
Token T[NTK + 1]; File F; long VAL[3];
bool equal(Token *tok, char *op) { int i = (int)(tok - T); return i >= 0 && i < NTK && !strcmp(SRC[i].text, op); }
static int idx_of(Token *tok) { return (int)(tok - T); }
static int next_line(int i) { for (int k = i + 1; k <= NTK; k++) if (k == NTK || SRC[k].bol) return k; return NTK; }
static long val_of(Token *tok) {   /* the controlling value of the directive whose keyword/operand token is tok */
  int i = idx_of(tok);
  for (int k = i; k < NTK && k < i + 3; k++) { if (SRC[k].text[0] == 'A' && !SRC[k].text[1]) return VAL[0]; if (SRC[k].text[0] == 'B' && !SRC[k].text[1]) return VAL[1]; if (SRC[k].text[0] == 'C' && !SRC[k].text[1]) return VAL[2]; }
  return 0;
}
// stand-ins with bodies (calls are redirected to them by goto-instrument --replace-calls), so that the token pointers
// they hand back stay concrete for the symbolic execution
long stub_eval_const_expr(Token **rest, Token *tok) { *rest = &T[next_line(idx_of(tok))]; return val_of(tok); }
Macro STUBM;
Macro *stub_find_macro(Token *tok) { return val_of(tok) != 0 ? &STUBM : (Macro *)0; }
bool stub_expand_macro(Token **rest, Token *tok) { return 0; }
long nondet_long_(void);
// the skeletons are well-formed: reaching a diagnostic is itself a failure (e.g. a bogus "stray #else")
void error_tok(Token *tok, char *fmt, ...) { OBLIGE(0, "C10.3 a well-formed conditional skeleton is not diagnosed"); ASSUME(0); }
void harness(void) {
  fill_src();     /* statics are nondeterministic under the contract instrumentation: the skeleton is written at run time */
#if SCEN == 9
  { Token t0 = {0}; IN(long, v); cond_incl = 0; push_cond_incl(&t0, v); REACH("returns");
    OBLIGE(cond_incl != 0 && cond_incl->included == (v != 0) && cond_incl->ctx == IN_THEN && cond_incl->next == 0, "C10.3 a group is recorded as taken iff the full-width value of its controlling expression is non-zero"); return; }
#else
  for (int i = 0; i < NTK; i++) { T[i] = (Token){0}; T[i].kind = SRC[i].text[0] == '#' ? TK_PUNCT : TK_IDENT; T[i].loc = SRC[i].text; T[i].len = (int)strlen(SRC[i].text); T[i].at_bol = SRC[i].bol; T[i].next = &T[i + 1]; T[i].file = &F; }
  T[NTK] = (Token){0}; T[NTK].kind = TK_EOF; T[NTK].at_bol = 1; T[NTK].file = &F;
  for (int i = 0; i < 3; i++) VAL[i] = nondet_long_();
  cond_incl = 0;
  (void)val_of(&T[0]); (void)next_line(0);
  Token *out = preprocess2(&T[0]);
  REACH("returns");
  _Bool a = VAL[0] != 0, b = VAL[1] != 0, c = VAL[2] != 0;
  _Bool want[8] = {0};
#if SCEN == 0
  want[0] = !a; want[1] = a; want[2] = 1; want[3] = b;
  const int nm = 4;
#elif SCEN == 3
  want[0] = a; want[1] = !a && b; want[2] = !a && !b; want[3] = 1;
  const int nm = 4;
#elif SCEN == 1
  want[0] = a; want[1] = a && !b; want[2] = a && b; want[3] = a; want[4] = !a; want[5] = 1;
  const int nm = 6;
#else
  want[0] = a; want[1] = a && b; want[2] = a && b && !c; want[3] = a && b; want[4] = a; want[5] = !a; want[6] = 1;
  const int nm = 7;
#endif
  // the output list: exactly the selected markers, in order, then EOF
  Token *p = out; _Bool ok = 1;
  for (int i = 0; i < NTK; i++) {
    if (SRC[i].text[0] != 'm') continue;
    int k = SRC[i].text[1] - '0';
    if (want[k]) { if (p != &T[i]) ok = 0; else p = p->next; }
  }
  OBLIGE(ok && p == &T[NTK], "C10.3 exactly the tokens of the groups selected by C11 6.10.1 are passed through, in order");
  OBLIGE(cond_incl == 0, "C10.3 the conditional stack is empty again after the last #endif");
  (void)nm;
#endif
}
