// C10.5  include search order: real search_include_paths / search_include_next over an arbitrary existence pattern of
// up to NP directories.  format() and file_exists() are ghost: the i-th candidate path is the ghost string P[i] and
// exists iff EX[i].  The memo table is empty (first lookup) in this obligation.
#include "verif.h"
#include "preprocess.c"
#define NP 4
char P[NP][4]; _Bool EX[NP]; int g_calls;
StringArray include_paths; char *base_file; bool opt_fpic; bool opt_fcommon;
char *format(char *fmt, ...) { int i = g_calls++; return P[i < NP ? i : NP - 1]; }
bool file_exists(char *path) { for (int i = 0; i < NP; i++) if (path == P[i]) return EX[i]; return 0; }
void *hashmap_get(HashMap *map, char *key) { return 0; }
void hashmap_put(HashMap *map, char *key, void *val) { }
_Bool nondet_bool_(void); int nondet_int_(void);
void harness(void) {
  static char *dirs[NP] = {"a", "b", "c", "d"};
  int n = nondet_int_(); ASSUME(0 <= n && n <= NP);
  include_paths.data = dirs; include_paths.len = n; include_paths.capacity = NP;
  for (int i = 0; i < NP; i++) EX[i] = nondet_bool_();
  g_calls = 0;
  int first = -1; for (int i = 0; i < NP; i++) if (i < n && EX[i] && first < 0) first = i;
  char *r = search_include_paths("x.h");
  REACH("returns");
  OBLIGE(first < 0 ? r == 0 : r == P[first], "C10.5 #include <...> resolves to the first directory, in command-line order, that has the file");
  OBLIGE(first < 0 || include_next_idx == first + 1, "C10.5 the search position for #include_next is the directory after the one that matched");
  // #include_next continues from there
  if (first >= 0) {
    int second = -1; for (int i = 0; i < NP; i++) if (i > first && i < n && EX[i] && second < 0) second = i;
    g_calls = first + 1;
    char *r2 = search_include_next("x.h");
    OBLIGE(second < 0 ? r2 == 0 : r2 == P[second], "C10.5 #include_next resolves to the next directory after the current one that has the file");
  }
}
