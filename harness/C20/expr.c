// C20  every expression node kind leaves the machine stack pointer, the compile-time depth counter and every stack
// slot below the entry pointer exactly as found, and exactly one value: x87 depth +1 iff the node has type long
// double, otherwise unchanged.  Real gen_expr under its recursive contract (children abstract), KIND and the operand
// type index TYC concrete per job.  The value itself is not specified here (cg_check_val = 0); see C01/C02/C04.
#include "cg_harness.h"
#ifndef TYC2
#define TYC2 TYC
#endif
void harness(void) {
  cg_init();
  Node a = {0}, b = {0}, c = {0}, n = {0}, d = {0};
  Obj var = {0}; Member mem = {0};
  Type *t = &CGT[TYC], *t2 = &CGT[TYC2];
  IN(uint64_t, va); IN(uint64_t, vb); IN(uint64_t, vc);
  cg_node(&a, ND_NULL_EXPR, t); cg_node(&b, ND_NULL_EXPR, t); cg_node(&c, ND_NULL_EXPR, &CGT[TI_INT]);
  cg_node(&n, KIND, t);
  cg_child[0] = &a; cg_child[1] = &b; cg_child[2] = &c; cg_val[0] = va; cg_val[1] = vb; cg_val[2] = vc; cg_root = &n; cg_check_val = 0;
  if (TYC <= TI_PTR) ASSUME(spec_canon(cg_st(t), (int64_t)va) && spec_canon(cg_st(t), (int64_t)vb));
  var.ty = t; var.is_local = 1; var.offset = -32; var.name = "v";
  switch (KIND) {
  case ND_ADD: case ND_SUB: case ND_MUL: case ND_DIV: n.lhs = &a; n.rhs = &b; ASSUME((int64_t)vb != 0 && (int64_t)vb != -1); break;   /* defined divisions only */
  case ND_MOD: case ND_BITAND: case ND_BITOR: case ND_BITXOR: case ND_SHL: case ND_SHR: n.lhs = &a; n.rhs = &b; ASSUME((int64_t)vb != 0 && (int64_t)vb != -1); break;
  case ND_EQ: case ND_NE: case ND_LT: case ND_LE: n.lhs = &a; n.rhs = &b; n.ty = &CGT[TI_INT]; break;
  case ND_NEG: case ND_BITNOT: n.lhs = &a; break;
  case ND_NOT: n.lhs = &a; n.ty = &CGT[TI_INT]; break;
  case ND_LOGAND: case ND_LOGOR: n.lhs = &a; n.rhs = &b; n.ty = &CGT[TI_INT]; break;
  case ND_COND: n.cond = &c; n.then = &a; n.els = &b; if (TYC2 != TYC) { b.ty = t2; n.ty = &CGT[TI_VOID]; } break;   /* arms of different type (one void): the expression is void */
  case ND_COMMA: n.lhs = &c; n.rhs = &b; c.ty = t2; break;                     /* left operand of any type is discarded */
  case ND_CAST: n.lhs = &a; n.ty = t2; break;                                    /* TYC -> TYC2 */
  case ND_NUM: n.val = (int64_t)va; n.fval = 1.5L; break;
  case ND_VAR: n.var = &var; break;
  case ND_DEREF: a.ty = &CGT[TI_PTR]; n.lhs = &a; ASSUME(va >= GM_DM_BASE + 16 && va <= GM_DM_BASE + GM_DM - 32); break;
  case ND_ADDR: cg_node(&d, ND_DEREF, t); a.ty = &CGT[TI_PTR]; d.lhs = &a; n.lhs = &d; n.ty = &CGT[TI_PTR]; break;
  case ND_ASSIGN: cg_node(&d, ND_DEREF, t); a.ty = &CGT[TI_PTR]; d.lhs = &a; n.lhs = &d; n.rhs = &b;
    ASSUME(va >= GM_DM_BASE + 16 && va <= GM_DM_BASE + GM_DM - 32); break;
  case ND_MEMBER: cg_node(&d, ND_DEREF, t); a.ty = &CGT[TI_PTR]; d.lhs = &a; n.lhs = &d; n.member = &mem; mem.ty = t; mem.offset = 4;
    ASSUME(va >= GM_DM_BASE + 16 && va <= GM_DM_BASE + GM_DM - 40); break;
  case ND_MEMZERO: var.ty = &CGT[TI_LONG]; n.var = &var; n.ty = &CGT[TI_VOID]; break;
  case ND_LABEL_VAL: n.unique_label = ".L..7"; n.ty = &CGT[TI_PTR]; break;
  case ND_NULL_EXPR: n.ty = &CGT[TI_VOID]; break;
  }
  CG_ENTRY_STATE(1);
  IN(int, x0); ASSUME(0 <= x0 && x0 <= 2); m.x87 = x0;
  (void)verif_val(0); (void)cg_holds(t, 0); (void)cg_x87_delta(t);
  gen_expr(&n);
  REACH("gen_expr returns");
}
