// C20  conversion sequences: real cast() for EVERY (from,to) pair of the 14 scalar types + void: stack pointer and
// depth unchanged, x87 depth changes by exactly (to is long double) - (from is long double), except that a cast to
// void must still leave no x87 residue (the value is discarded).  cast() is a leaf: plain harness, one job.
#include "cg_harness.h"
void harness(void) {
  cg_init();
  for (int f = FROM; f <= FROM; f++) {
    for (int t = 0; t <= TI_VOID; t++) {
      CG_ENTRY_STATE(2);
      Type *from = &CGT[f], *to = &CGT[t];
      m.x87 = from->kind == TY_LDOUBLE ? 2 : 1;
      if (from->kind == TY_LDOUBLE) { m.st_int[1] = 1; m.st[1] = 0; }
      int want = 1 + (to->kind == TY_LDOUBLE ? 1 : 0);
      cast(from, to);
      OBLIGE(!m.unknown, "C20 conversion text is inside the machine vocabulary");
      OBLIGE(m.sp == 2 && depth == 2 && !m.skip, "C20 a conversion leaves rsp and depth where they were");
      OBLIGE(m.x87 == (t == TI_VOID ? 1 : want), "C20 a conversion consumes a long double operand and produces a long double result on the x87 stack, nothing else (a cast to void discards it)");
    }
  }
  REACH("all pairs executed");
}
