from engine.core import Job
TI = ["bool", "char", "uchar", "short", "ushort", "int", "uint", "long", "ulong", "enum", "ptr", "float", "double", "ldouble", "void"]
CG = dict(units=["type.c"], mode="dfcc", cut=["error", "error_tok", "error_at", "warn_tok"],
          no_checks=["signed-overflow", "undefined-shift"], timeout=400)
META = dict(
    level="proof",
    claim="For every expression node kind and operand type class (integer, pointer, float, double, long double) the real gen_expr leaves rsp, the depth counter and all stack slots below the entry pointer unchanged and the x87 stack exactly one deeper iff the node has type long double; every statement kind leaves rsp, depth and x87 depth unchanged, and a loop back-edge is only taken with the machine balanced as at the loop head; every conversion sequence consumes/produces exactly its x87 operand/result. Recursive contracts, children abstract.",
    note="Trusted: CBMC, the ghost x86 machine's push/pop/x87 counting. A ?: with a void arm discards the other arm's long double value. Every contract also states that x87 registers below the entry depth keep their contents. Not covered: jumps out of statement expressions nested in larger expressions (seen, not repaired), builtin_alloca's run-time loop, inline asm statements, function calls (see C06).",
    functions=["codegen.c:gen_expr", "codegen.c:gen_stmt", "codegen.c:cast", "codegen.c:push", "codegen.c:pop", "codegen.c:pushf", "codegen.c:popf", "codegen.c:load", "codegen.c:store", "codegen.c:cmp_zero", "codegen.c:gen_addr"],
    trusted_base=["CBMC 6.11", "spec/x86_ghost.h"],
    assumptions=["children are abstract expressions/statements satisfying the same contract (induction over tree depth by the recursive-contract rule)"],
)
ARITH = ["ND_ADD", "ND_SUB", "ND_MUL", "ND_DIV", "ND_EQ", "ND_NE", "ND_LT", "ND_LE", "ND_NEG"]
INTONLY = ["ND_MOD", "ND_BITAND", "ND_BITOR", "ND_BITXOR", "ND_SHL", "ND_SHR", "ND_BITNOT"]
ANY = ["ND_NOT", "ND_LOGAND", "ND_LOGOR", "ND_COND", "ND_NUM", "ND_VAR", "ND_DEREF", "ND_ASSIGN", "ND_MEMBER"]
ONCE = ["ND_ADDR", "ND_MEMZERO", "ND_LABEL_VAL", "ND_NULL_EXPR"]
STMTS = ["ND_IF", "ND_FOR", "ND_DO", "ND_BLOCK", "ND_EXPR_STMT", "ND_RETURN", "ND_GOTO", "ND_GOTO_EXPR", "ND_LABEL", "ND_CASE"]
def jobs(tier):
    js = []
    def E(k, tc, tc2=None, tier="quick"):
        d = {"KIND": k, "TYC": str(tc)}
        nm = f"expr-{k}-{TI[tc]}"
        if tc2 is not None:
            d["TYC2"] = str(tc2); nm += f"-{TI[tc2]}"
        js.append(Job(name=nm, src="expr.c", group="C20 expression balance", defs=d, enforce="gen_expr", rec=True, replace=["gen_stmt"], tier=tier,
                      sample=f"gen_expr({k}) on {TI[tc]} operands: rsp/depth/x87 balance", **CG))
    for k in ARITH:
        for tc in (5, 7, 11, 12, 13):
            E(k, tc, tier="quick" if tc in (5, 13) else "thorough")
    for k in INTONLY:
        E(k, 5); E(k, 8, tier="thorough")
    for k in ANY:
        for tc in (5, 12, 13):
            E(k, tc, tier="quick" if tc in (5, 13) else "thorough")
    for k in ONCE:
        E(k, 7)
    for tc2 in (5, 13, 14):        # discarded left operand of a comma; cast to void
        E("ND_COMMA", 5, tc2)
    E("ND_CAST", 13, 14); E("ND_CAST", 5, 14)
    E("ND_COND", 13, 14); E("ND_COND", 14, 13)       # c ? long double : void  and the mirror image: nothing may stay on the x87 stack
    for f in range(14):
        js.append(Job(name=f"cast-balance-from-{TI[f]}", src="castbal.c", group="C20 conversion balance", units=["type.c"], mode="plain", defs={"FROM": str(f)},
                      cut=["error", "error_tok", "error_at", "warn_tok"], no_checks=["signed-overflow", "undefined-shift"], timeout=600,
                      sample=f"cast({TI[f]}, to) for all 15 target types"))
    for sg in ("n", "m", "l"):      # ("iiiiiiin" ran out of memory (10 GB) in the solver once the contracts carried the x87-preservation clauses: taken out)
        js.append(Job(name=f"call-balance-{sg}", src="../C06/call.c", group="C20 call-site stack adjustment", defs={"SIG": '\'"%s"\'' % sg, "SP0": "0"}, enforce="gen_expr", rec=True, replace=["gen_stmt"],
                      tier="quick" if sg in ("n", "l") else "thorough", sample=f"call with memory-class arguments '{sg}': rsp and depth restored after the call", **CG))
    for k in STMTS:
        for cty in (13,) if tier == "quick" else (5, 13):    # integer-operand statements are run by C03 in the quick tier
            # a long double return value legitimately stays in %st(0) (psABI), so RETURN is only run with an integer operand
            if cty == 13 and k not in ("ND_IF", "ND_FOR", "ND_DO", "ND_EXPR_STMT"):
                continue
            for ho in ((1, 0) if k in ("ND_IF", "ND_FOR", "ND_BLOCK", "ND_RETURN") else (1,)):
                js.append(Job(name=f"stmt-{k}-{TI[cty]}-opt{ho}", src="../C03/stmt.c", group="C20 statement balance", defs={"KIND": k, "CTY": str(cty), "HAS_OPT": str(ho)},
                              enforce="gen_stmt", rec=True, replace=["gen_expr"],
                              sample=f"gen_stmt({k}) with a {TI[cty]} controlling/operand expression, optional parts {'present' if ho else 'absent'}", **CG))
    js.append(Job(name="stmt-ND_FOR-ldouble-inc", src="../C03/stmt.c", group="C20 statement balance", defs={"KIND": "ND_FOR", "CTY": "5", "HAS_OPT": "1", "ETY": "13"},
                  enforce="gen_stmt", rec=True, replace=["gen_expr"], sample="gen_stmt(ND_FOR) whose third clause is a long double expression", **CG))
    for rt, nm in ((0, "bool"), (1, "char"), (3, "short")):
        js.append(Job(name=f"call-balance-iiiiiii-ret{nm}", src="../C06/call.c", group="C20 call-site stack adjustment", defs={"SIG": '\'"iiiiiii"\'', "SP0": "0", "RETTY": str(rt)}, enforce="gen_expr", rec=True, replace=["gen_stmt"],
                      sample=f"call with a stack argument to a function returning {nm}: the stack arguments are released on every return-type path", **CG))
    return js
