from engine.core import Job
META = dict(
    level="other",
    claim="Line bookkeeping mechanisms on the real tokenizer/preprocessor: add_line_numbers gives every token 1 + the number of newlines before it (all 8-byte buffers, 3 tokens at arbitrary positions); line splicing removes splices but keeps the number of newline characters, so later physical lines keep their numbers (all 7-byte buffers); __LINE__ inside a macro body is the invocation line in the invoking file with that file's delta; every expression/statement is preceded by the .loc record of its own token; the #line delta is checked against C11 6.10.4p3 (known finding: off by one).",
    note="Bounded buffers. Not covered: __FILE__, diagnostics' line numbers (see C13.4), .file records, chains of more than two macro levels, tokens on continuation lines (they are numbered with the first line of their logical line). copy_line/preprocess are replaced by a contract in the #line obligation.",
    functions=["preprocess.c:line_macro", "codegen.c:gen_expr", "codegen.c:gen_stmt", "tokenize.c:add_line_numbers", "tokenize.c:remove_backslash_newline", "preprocess.c:read_line_marker"],
    trusted_base=["CBMC 6.11"],
    assumptions=["copy_line + preprocess yield the directive's number token (contract)"],
    explanation="bounded symbolic harnesses on real line-bookkeeping functions",
)
CUTD = ["error", "error_tok", "error_at", "warn_tok", "verror_at"]
def jobs(tier):
    return [
        Job(name="add_line_numbers", src="lines.c", group="C18.2 line numbering", mode="plain", cut=CUTD, cut_defined=CUTD, units=["unicode.c", "type.c"], unwind=12, timeout=300, replay=None,
            bounded="8-byte buffers, 3 tokens", sample="add_line_numbers on every 8-byte buffer over {a, newline}"),
        Job(name="splice-newlines", src="../C11/inplace.c", group="C18.1 newline preservation", defs={"FN": "1", "ALPHABET": "'" + '"\\\\\\na"' + "'", "NB": "9"}, mode="plain", cut=CUTD, cut_defined=CUTD,
            units=["unicode.c", "type.c"], unwind=30, timeout=600, replay=None, bounded="9-byte buffers", sample="remove_backslash_newline keeps the newline count"),
        Job(name="line-macro", src="linemacro.c", group="C18.3 __LINE__ origin", mode="plain", cut=["error", "error_tok", "error_at", "warn_tok", "verror_at"], redirect={"new_num_token": "stub_new_num_token"},
            units=[], timeout=300, unwind=5, replay=None, bounded="origin chains of length <= 2", sample="line_macro through 0..2 levels of macro expansion across two files with different #line deltas"),
        Job(name="loc-records", src="locrec.c", group="C18.5 debug line records", mode="plain", cut=["error", "error_tok", "error_at", "warn_tok", "verror_at"], units=["type.c"], timeout=300, unwind=6, unwindset=["strcmp.0:40"], replay=None,
            bounded="two consecutive nodes", sample="gen_expr then gen_stmt on nodes of two files with symbolic line numbers"),
        Job(name="line-marker", src="linemarker.c", group="C18.4 #line", mode="legacy", replace=["copy_line", "preprocess"], cut=["error", "error_tok", "error_at", "warn_tok", "verror_at"],
            units=[], timeout=300, unwind=4, replay=None, bounded="contract in place of the directive re-read", sample="#line N on physical line L, all L, N"),
    ]
