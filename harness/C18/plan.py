from engine.core import Job
META = dict(
    level="other",
    claim="Line bookkeeping mechanisms on the real tokenizer/preprocessor: add_line_numbers gives every token 1 + the number of newlines before it (all 8-byte buffers, 3 tokens at arbitrary positions); line splicing removes splices but keeps the number of newline characters, so later physical lines keep their numbers (all 7-byte buffers); the #line delta is checked against C11 6.10.4p3 (known finding: off by one).",
    note="Bounded buffers. Not covered: origin chasing of __LINE__/__FILE__ through macro expansion, diagnostics, .loc/.file records, tokens on continuation lines (they are numbered with the first line of their logical line). copy_line/preprocess are replaced by a contract in the #line obligation.",
    functions=["tokenize.c:add_line_numbers", "tokenize.c:remove_backslash_newline", "preprocess.c:read_line_marker"],
    trusted_base=["CBMC 6.11"],
    assumptions=["copy_line + preprocess yield the directive's number token (contract)"],
    explanation="bounded symbolic harnesses on real line-bookkeeping functions",
)
CUTD = ["error", "error_tok", "error_at", "warn_tok", "verror_at"]
def jobs(tier):
    return [
        Job(name="add_line_numbers", src="lines.c", group="C18.2 line numbering", mode="plain", cut=CUTD, cut_defined=CUTD, units=["unicode.c", "type.c"], unwind=12, timeout=300, replay=None,
            bounded="8-byte buffers, 3 tokens", sample="add_line_numbers on every 8-byte buffer over {a, newline}"),
        Job(name="splice-newlines", src="../C11/inplace.c", group="C18.1 newline preservation", defs={"FN": "1", "ALPHABET": "'\"\\\\\\\\\\\\na\\\\r\"'", "NB": "7"}, mode="plain", cut=CUTD, cut_defined=CUTD,
            units=["unicode.c", "type.c"], unwind=25, timeout=300, replay=None, bounded="7-byte buffers", sample="remove_backslash_newline keeps the newline count"),
        Job(name="line-marker", src="linemarker.c", group="C18.4 #line", mode="legacy", replace=["copy_line", "preprocess"], cut=["error", "error_tok", "error_at", "warn_tok", "verror_at"],
            units=[], timeout=300, unwind=4, replay=None, bounded="contract in place of the directive re-read", sample="#line N on physical line L, all L, N"),
    ]
