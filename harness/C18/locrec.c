// C18.5  debug line records: every expression/statement node emitted by the real gen_expr / gen_stmt starts with a
// ".loc <file> <line>" record of ITS token, also when the previous node had the same line number in another file.
#include "verif.h"
#include "dirlog.h"
#include "codegen.c"
#undef println
bool opt_fpic; bool opt_fcommon;
File **get_input_files(void) { static File *none[1]; return none; }
int nondet_int_(void);
void harness(void) {
  File f1 = {0}, f2 = {0}; Token t1 = {0}, t2 = {0}; Node a = {0}, b = {0}, s = {0}; Type TI_ = {TY_INT, 4, 4};
  f1.file_no = 1; f2.file_no = nondet_int_(); ASSUME(f2.file_no == 1 || f2.file_no == 2);
  t1.file = &f1; t1.line_no = nondet_int_(); t2.file = &f2; t2.line_no = nondet_int_();
  ASSUME(1 <= t1.line_no && t1.line_no < 100000 && 1 <= t2.line_no && t2.line_no < 100000);
  a.kind = ND_NUM; a.ty = &TI_; a.tok = &t1; a.val = 1;
  b.kind = ND_NUM; b.ty = &TI_; b.tok = &t2; b.val = 2;
  s.kind = ND_EXPR_STMT; s.tok = &t2; s.lhs = &b;
  dl_n = 0;
  gen_expr(&a);
  int k = dl_n;
  gen_stmt(&s);
  REACH("returns");
  OBLIGE(dl_is(0, "  .loc %d %d") && dl[0].i0 == 1 && dl[0].i1 == t1.line_no, "C18.5 an expression's code is preceded by the line record of its own token");
  OBLIGE(dl_is(k, "  .loc %d %d") && dl[k].i0 == f2.file_no && dl[k].i1 == t2.line_no, "C18.5 a statement's code is preceded by the line record of its own token (file and line), whatever was emitted before");
  OBLIGE(dl_is(k + 1, "  .loc %d %d") && dl[k + 1].i0 == f2.file_no && dl[k + 1].i1 == t2.line_no, "C18.5 ... and so is the expression inside it");
}
