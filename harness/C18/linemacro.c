// C18.3  __LINE__ through macro expansion: real preprocess.c line_macro on a token whose expansion origin chain leads
// to the invocation token in another file.  The value is the physical line of the OUTERMOST origin plus the #line
// delta of THAT token's file.  new_num_token is a stub that records the number.
#include "verif.h"
#include "preprocess.c"
StringArray include_paths; char *base_file; bool opt_fpic; bool opt_fcommon;
bool file_exists(char *p) { return 0; }
int g_num; Token g_out;
Token *stub_new_num_token(int val, Token *tmpl) { g_num = val; return &g_out; }
int nondet_int_(void);
void harness(void) {
  File fbody = {0}, fuse = {0}; Token use = {0}, mid = {0}, body = {0};
  int l_use = nondet_int_(), l_mid = nondet_int_(), l_body = nondet_int_(), d_use = nondet_int_(), d_body = nondet_int_();
  ASSUME(1 <= l_use && l_use < 100000 && 1 <= l_mid && l_mid < 100000 && 1 <= l_body && l_body < 100000 && -1000 <= d_use && d_use <= 1000 && -1000 <= d_body && d_body <= 1000);
  int depth = nondet_int_(); ASSUME(0 <= depth && depth <= 2);
  fuse.line_delta = d_use; fbody.line_delta = d_body;
  use.file = &fuse; use.line_no = l_use; use.origin = 0;
  mid.file = &fbody; mid.line_no = l_mid; mid.origin = &use;
  body.file = &fbody; body.line_no = l_body; body.origin = depth == 2 ? &mid : depth == 1 ? &use : 0;
  line_macro(&body);
  REACH("returns");
  int want = depth == 0 ? l_body + d_body : l_use + d_use;
  OBLIGE(g_num == want, "C18.3 __LINE__ inside a macro body denotes the line of the macro invocation in the invoking file, with that file's #line adjustment");
}
