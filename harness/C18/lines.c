// C18.2  line numbering: real tokenize.c add_line_numbers on every NUL-terminated buffer of NB bytes over {a, \n} with
// up to three tokens at arbitrary increasing positions: each token's line_no is 1 + the number of newlines before it.
#include "verif.h"
#include "tokenize.c"
#define NB 8
int nondet_int_(void); _Bool nondet_bool_(void);
void harness(void) {
  static char buf[NB + 2]; Token T[4]; File f = {0};
  for (int i = 0; i < NB; i++) buf[i] = nondet_bool_() ? '\n' : 'a';
  buf[NB] = 0; buf[NB + 1] = 0;
  int p0 = nondet_int_(), p1 = nondet_int_(), p2 = nondet_int_();
  ASSUME(0 <= p0 && p0 < p1 && p1 < p2 && p2 < NB);
  int pos[4] = {p0, p1, p2, NB};              /* the EOF token sits at the terminating NUL */
  for (int i = 0; i < 4; i++) { T[i] = (Token){0}; T[i].loc = buf + pos[i]; T[i].line_no = -1; T[i].next = i < 3 ? &T[i + 1] : &T[3]; }
  f.contents = buf; current_file = &f;
  add_line_numbers(&T[0]);
  REACH("returns");
  for (int i = 0; i < 4; i++) {
    int want = 1; for (int k = 0; k < NB; k++) if (k < pos[i] && buf[k] == '\n') want++;
    OBLIGE(T[i].line_no == want, "C18.2 a token's line number is one plus the number of newline characters before it");
  }
}
