// C18.4  #line: real preprocess.c read_line_marker with the macro-expanding re-read of the directive line
// (copy_line + preprocess) replaced by a contract that yields the number token.  C11 6.10.4p3: the line FOLLOWING the
// directive has number N.
#include "verif.h"
#include "preprocess.c"
Token NUMTOK, EOFTOK; Type TINT;
static Token *copy_line(Token **rest, Token *tok)
__CPROVER_assigns(*rest)
__CPROVER_ensures(__CPROVER_return_value == &NUMTOK);
Token *preprocess(Token *tok)
__CPROVER_assigns()
__CPROVER_ensures(__CPROVER_return_value == &NUMTOK);
StringArray include_paths; char *base_file; bool opt_fpic; bool opt_fcommon;
bool file_exists(char *p) { return 0; }
void harness(void) {
  File f = {0}; Token start = {0}; Token *rest = 0;
  IN(int, L); IN(int, N); ASSUME(1 <= L && L <= 100000 && 1 <= N && N <= 2147483647 - 200000);
  TINT = (Type){TY_INT, 4, 4};
  NUMTOK = (Token){0}; NUMTOK.kind = TK_NUM; NUMTOK.ty = &TINT; NUMTOK.val = N; NUMTOK.next = &EOFTOK;
  EOFTOK = (Token){0}; EOFTOK.kind = TK_EOF;
  start.file = &f; start.line_no = L; f.line_delta = 0;
  read_line_marker(&rest, &start);
  REACH("returns");
  // a token on the next physical line (L+1) is reported as line_no + delta
  OBLIGE((L + 1) + f.line_delta == N, "C18.4 the line following '#line N' has presumed number N");
  OBLIGE(f.display_name == 0, "C18.4 without a file name the presumed file name is unchanged");
}
