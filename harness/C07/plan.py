from engine.core import Job

KINDS = ["ND_ADD", "ND_SUB", "ND_MUL", "ND_DIV", "ND_MOD", "ND_BITAND", "ND_BITOR", "ND_BITXOR", "ND_SHL", "ND_SHR",
         "ND_EQ", "ND_NE", "ND_LT", "ND_LE", "ND_NEG", "ND_BITNOT", "ND_NOT", "ND_LOGAND", "ND_LOGOR", "ND_COND",
         "ND_COMMA", "ND_CAST", "ND_NUM"]

META = dict(
    level="proof",
    claim="The integer constant folder (eval2/eval3) returns, for every operator kind, every operand type and every operand value for which C11 defines the result, exactly the C11 value canonicalised to the node's type; division by zero never returns normally (it is diagnosed). Proved per node kind by a recursive function contract (children abstract), so nesting depth is covered by the contract rule. MUL/DIV/MOD value equality is bounded (8-bit magnitudes) and reported as bounded.",
    note="Trusted: CBMC, spec/c11_ops.h (C11 rendering), LP64 model. Also: integer-typed nodes over floating operands (== != < <= ! && || ?: with a floating condition, casts from float/double to every integer type incl. _Bool and unsigned long) equal the C11 value for every operand value incl. NaN and fractions. Not covered: the parser that builds the nodes, consumers' narrowing of the 64-bit result, long double folding.",
    functions=["parse.c:eval2", "parse.c:eval3", "parse.c:eval", "parse.c:eval_double"],
    trusted_base=["CBMC 6.11 (goto-cc, DFCC instrumentation, symex, minisat2)", "spec/c11_ops.h as a rendering of C11 6.3.1.3 / 6.5.x",
                  "LP64 data model of goto-cc == that of the host gcc"],
    assumptions=["children are abstract nodes with arbitrary canonical values of their type (induction over expression depth is the recursive contract rule, not machine-checked separately)",
                 "error_tok does not return (body generated as assume(false)); its diagnostics are checked under C13"],
    explanation="recursive contract on the real eval2; one job per node kind",
)


def jobs(tier):
    js = []
    for k in KINDS:
        d = {"KIND": k}
        bounded = None
        if k in ("ND_DIV", "ND_MOD"):
            d["DIVKIND"] = ""
        if k in ("ND_MUL", "ND_DIV", "ND_MOD"):
            d["BOUND_BITS"] = "8"
            bounded = "abstract operands restricted to |value| < 2^8: equivalence of two 64-bit multipliers/dividers (code vs spec over separately named contract results) did not finish on minisat, cadical, kissat, z3 or cvc5"
        js.append(Job(name=f"eval2-{k}", src="eval2.c", group="C07.1 integer folder == C11 value", defs=d,
                      units=["type.c"], mode="dfcc", enforce="eval2", rec=True, replace=["add_type"],
                      cut=["error", "error_tok", "error_at", "warn_tok"], timeout=180,
                      no_checks=["signed-overflow", "undefined-shift"],
                      bounded=bounded, sample=f"eval2 on a {k} node, all operand types/values"))
    for k in ("ND_DIV", "ND_MOD"):
        # the folder itself must not trap: divisor -1 with EVERY 64-bit dividend, CBMC's own overflow check switched on for the division
        js.append(Job(name=f"eval2-{k}-by-minus-one", src="eval2.c", group="C07.2 no trap in the folder", defs={"KIND": k, "RHS_M1": "1", "FIX_TN": "7", "TRAP_CASE": "1"},
                      units=["type.c"], mode="dfcc", enforce="eval2", rec=True, replace=["add_type"], cut=["error", "error_tok", "error_at", "warn_tok"], timeout=180,
                      no_checks=["undefined-shift"], sample=f"eval2 on {k} with divisor -1 and every dividend (long)"))
    for k in ("ND_ADD", "ND_SUB", "ND_NEG", "ND_COND", "ND_COMMA", "ND_NUM", "ND_CAST"):
        js.append(Job(name=f"evald-{k}", src="evald.c", group="C07.3 floating folder", defs={"KIND": k}, units=["type.c"], mode="dfcc", enforce="eval_double", rec=True,
                      replace=["add_type", "eval2"], cut=["error", "error_tok", "error_at", "warn_tok"], timeout=300, replay=None,
                      sample=f"eval_double on a {k} node of type float or double, all operand values"))
    TIN = ["bool", "char", "uchar", "short", "ushort", "int", "uint", "long", "ulong", "enum"]
    for k in ("ND_EQ", "ND_NE", "ND_LT", "ND_LE", "ND_NOT", "ND_LOGAND", "ND_LOGOR", "ND_COND"):
        js.append(Job(name=f"evalf-{k}", src="evalf.c", group="C07.4 integer results over floating operands", defs={"KIND": k, "TO": "5"}, units=["type.c"], mode="dfcc", enforce="eval2", rec=True,
                      replace=["add_type", "eval_double"], cut=["error", "error_tok", "error_at", "warn_tok"], no_checks=["signed-overflow", "undefined-shift"], timeout=300,
                      sample=f"eval2({k}) with float/double operands, every value incl. NaN and fractions"))
    for to in (0, 2, 3, 5, 6, 7, 8):
        js.append(Job(name=f"evalf-cast-{TIN[to]}", src="evalf.c", group="C07.4 integer results over floating operands", defs={"KIND": "ND_CAST", "TO": str(to)}, units=["type.c"], mode="dfcc", enforce="eval2", rec=True,
                      replace=["add_type", "eval_double"], cut=["error", "error_tok", "error_at", "warn_tok"], no_checks=["signed-overflow", "undefined-shift"], timeout=300,
                      sample=f"eval2(cast float/double -> {TIN[to]}) for every value whose truncation is representable"))
    return js
