// C07.3  floating constant folder: real parse.c eval_double under a recursive contract (children abstract, carrying
// arbitrary values that are canonical for their type: a float-typed child yields a float-representable double).
// The result must be the IEEE result of the operator IN THE NODE'S TYPE (FLT_EVAL_METHOD 0): float nodes are rounded
// to float after every operation.  KIND concrete per job; * and / are not run (multiplier equivalence).
#include "verif.h"
#include "parse.c"
Node *gk[3]; double gd[4]; int64_t gi[3];
static int idx(Node *n) { return n == gk[0] ? 0 : n == gk[1] ? 1 : n == gk[2] ? 2 : 3; }
static uint64_t bits(double d) { union { double d; uint64_t u; } x; x.d = d; return x.u; }
double verif_dval(Node *n) { return gd[idx(n)]; }
int64_t verif_ival(Node *n) { return gi[idx(n) < 3 ? idx(n) : 0]; }
void add_type(Node *node)
__CPROVER_requires(node == 0 || node->ty != 0)
__CPROVER_assigns()
__CPROVER_ensures(1);
static int64_t eval2(Node *node, char ***label)
__CPROVER_requires(node != 0 && node->ty != 0)
__CPROVER_assigns()
__CPROVER_ensures(__CPROVER_return_value == verif_ival(node));
static long double eval_double(Node *node)
__CPROVER_requires(node != 0 && node->ty != 0)
__CPROVER_assigns()
__CPROVER_ensures(__CPROVER_return_value == (long double)verif_dval(node) && bits((double)__CPROVER_return_value) == bits(verif_dval(node)));   /* a float/double node yields exactly a value of its type */
static Type TF, TD, TI_, TL, TUL;
void harness(void) {
  TF = (Type){TY_FLOAT, 4, 4}; TD = (Type){TY_DOUBLE, 8, 8}; TI_ = (Type){TY_INT, 4, 4}; TL = (Type){TY_LONG, 8, 8}; TUL = (Type){TY_LONG, 8, 8, 1};   /* DFCC does not keep file-scope initialisers */
  gk[0] = gk[1] = gk[2] = 0;
  ty_int = &TI_; ty_long = &TL; ty_ulong = &TUL; ty_float = &TF; ty_double = &TD;
  Token tok = {0}; Node a = {0}, b = {0}, c = {0}, n = {0};
  IN(_Bool, isf);                         /* the node (and its operands) have type float, else double */
  Type *t = isf ? &TF : &TD;
  double da = nondet_double_(), db = nondet_double_(), dc = nondet_double_();
  if (isf) { ASSUME(da == (double)(float)da && db == (double)(float)db && dc == (double)(float)dc); }   /* canonical float values */
  ASSUME(da == da && db == db && dc == dc);   /* no NaN operands (payloads are unspecified) */
  a.ty = b.ty = c.ty = n.ty = t; a.tok = b.tok = c.tok = n.tok = &tok; n.kind = KIND;
  gk[0] = &a; gk[1] = &b; gk[2] = &c; gd[0] = da; gd[1] = db; gd[2] = dc;
  double want;
  switch (KIND) {
  case ND_ADD: n.lhs = &a; n.rhs = &b; want = isf ? (double)((float)da + (float)db) : da + db; break;
  case ND_SUB: n.lhs = &a; n.rhs = &b; want = isf ? (double)((float)da - (float)db) : da - db; break;
  case ND_NEG: n.lhs = &a; want = -da; break;
  case ND_COND: n.cond = &c; n.then = &a; n.els = &b; want = dc != 0 ? da : db; break;
  case ND_COMMA: n.lhs = &a; n.rhs = &b; want = db; break;
  case ND_NUM: n.fval = da; want = da; break;
  case ND_CAST: {   /* from long / unsigned long / the other floating type */
    IN(int, src); ASSUME(0 <= src && src <= 2); IN(int64_t, iv);
    n.lhs = &a; a.ty = src == 0 ? &TL : src == 1 ? &TUL : (isf ? &TD : &TF);
    gi[0] = iv;
    if (src == 2 && !isf) ASSUME(da == (double)(float)da);
    want = src == 0 ? (isf ? (double)(float)iv : (double)iv) : src == 1 ? (isf ? (double)(float)(uint64_t)iv : (double)(uint64_t)iv) : (isf ? (double)(float)da : da);
    break; }
  }
  ASSUME(want == want);
  gd[3] = want;
  (void)verif_dval(0); (void)verif_ival(0); (void)bits(0);
  eval_double(&n);
  REACH("eval_double returns");
}
double nondet_double_(void);
