// C07.4  integer-typed constant expressions over FLOATING operands: real parse.c eval2 (recursive contract) on the
// node kinds whose result is an integer but whose operands may be floating: == != < <= ! && || ?: (floating
// condition) and casts from float/double to every integer type.  Children are abstract floating nodes: eval_double
// yields their ghost value; eval2 on a floating child yields that value converted to int64 by truncation (what the
// folder's own eval2 does for a floating node).  The result must be what C11 prescribes on the operand VALUES
// (6.5.8/6.5.9 compare the values, 6.5.3.3/6.5.13-15 test against zero, 6.3.1.4 converts by truncation when the
// truncated value is representable, 6.3.1.2 converts to _Bool by comparison with zero).  KIND concrete per job.
#include "verif.h"
#include "parse.c"
#include "c11_ops.h"
Node *gk[3]; double gd[3]; int64_t gv_root; Node *verif_root; _Bool root_defined;
static int idx(Node *n) { return n == gk[0] ? 0 : n == gk[1] ? 1 : n == gk[2] ? 2 : 3; }
static uint64_t bits(double d) { union { double d; uint64_t u; } x; x.d = d; return x.u; }
static int64_t trunc64(double d) { return (d >= -9223372036854775808.0 && d < 9223372036854775808.0) ? (int64_t)d : (int64_t)0x8000000000000000UL; }
Node *arm1, *arm2;
int64_t verif_ival(Node *n) { return n == arm1 ? 1 : n == arm2 ? 2 : idx(n) < 3 ? trunc64(gd[idx(n)]) : gv_root; }
double verif_dval(Node *n) { return gd[idx(n) < 3 ? idx(n) : 0]; }
void add_type(Node *node)
__CPROVER_requires(node == 0 || node->ty != 0)
__CPROVER_assigns()
__CPROVER_ensures(1);
static int64_t eval2(Node *node, char ***label)
__CPROVER_requires(node != 0 && node->ty != 0 && label == 0)
__CPROVER_assigns()
__CPROVER_ensures(__CPROVER_return_value == verif_ival(node))
__CPROVER_ensures(node != verif_root || root_defined);
static long double eval_double(Node *node)
__CPROVER_requires(node != 0 && node->ty != 0)
__CPROVER_assigns()
__CPROVER_ensures(__CPROVER_return_value == (long double)verif_dval(node) && bits((double)__CPROVER_return_value) == bits(verif_dval(node)));
static Type T[10], TF, TD;
static SpecTy st(Type *t) { SpecTy s = { t->size, t->is_unsigned || t->kind == TY_BOOL, t->kind == TY_BOOL }; return s; }
double nondet_double_(void);
void harness(void) {
  T[0] = (Type){TY_BOOL, 1, 1}; T[1] = (Type){TY_CHAR, 1, 1}; T[2] = (Type){TY_CHAR, 1, 1, 1}; T[3] = (Type){TY_SHORT, 2, 2}; T[4] = (Type){TY_SHORT, 2, 2, 1};
  T[5] = (Type){TY_INT, 4, 4}; T[6] = (Type){TY_INT, 4, 4, 1}; T[7] = (Type){TY_LONG, 8, 8}; T[8] = (Type){TY_LONG, 8, 8, 1}; T[9] = (Type){TY_ENUM, 4, 4};
  TF = (Type){TY_FLOAT, 4, 4}; TD = (Type){TY_DOUBLE, 8, 8};
  ty_bool = &T[0]; ty_char = &T[1]; ty_uchar = &T[2]; ty_short = &T[3]; ty_ushort = &T[4]; ty_int = &T[5]; ty_uint = &T[6]; ty_long = &T[7]; ty_ulong = &T[8]; ty_float = &TF; ty_double = &TD;
  Token tok = {0}; Node a = {0}, b = {0}, c = {0}, n = {0};
  IN(_Bool, isf); Type *ft = isf ? &TF : &TD;
  double da = nondet_double_(), db = nondet_double_(), dc = nondet_double_();
  if (isf) { ASSUME(da == (double)(float)da && db == (double)(float)db && dc == (double)(float)dc); }
  a.ty = b.ty = c.ty = ft; a.tok = b.tok = c.tok = n.tok = &tok; a.kind = b.kind = c.kind = ND_NULL_EXPR; n.kind = KIND; n.ty = &T[5];
  arm1 = arm2 = 0; gk[0] = &a; gk[1] = &b; gk[2] = &c; gd[0] = da; gd[1] = db; gd[2] = dc;
  int64_t want = 0; _Bool defined = 1;
  switch (KIND) {
  case ND_EQ: n.lhs = &a; n.rhs = &b; want = da == db; break;
  case ND_NE: n.lhs = &a; n.rhs = &b; want = da != db; break;
  case ND_LT: n.lhs = &a; n.rhs = &b; want = da < db; break;
  case ND_LE: n.lhs = &a; n.rhs = &b; want = da <= db; break;
  case ND_NOT: n.lhs = &a; want = !(da != 0); break;
  case ND_LOGAND: n.lhs = &a; n.rhs = &b; want = (da != 0) && (db != 0); break;
  case ND_LOGOR: n.lhs = &a; n.rhs = &b; want = (da != 0) || (db != 0); break;
  case ND_COND: {   /* floating condition, integer arms */
    static Node x, y; x = (Node){0}; y = (Node){0}; x.kind = y.kind = ND_NUM; x.ty = y.ty = &T[5]; x.tok = y.tok = &tok; x.val = 1; y.val = 2;
    n.cond = &c; n.then = &x; n.els = &y; arm1 = &x; arm2 = &y; want = dc != 0 ? 1 : 2; break; }
  default: {        /* ND_CAST to integer type TO */
    n.ty = &T[TO]; n.lhs = &a; SpecTy s = st(n.ty);
    if (TO == 0) want = da != 0;
    else {
      if (da != da) defined = 0;
      double lo, hi;
      if (s.uns) { lo = -1.0; hi = s.size == 8 ? 18446744073709551616.0 : (double)(1UL << (8 * s.size)); }
      else { hi = s.size == 8 ? 9223372036854775808.0 : (double)(1L << (8 * s.size - 1)); lo = -hi - 1.0; }
      if (!(da > lo && da < hi)) defined = 0;
      else want = spec_conv(s, s.uns && s.size == 8 ? (int64_t)(uint64_t)da : (int64_t)da);
    }
    break; }
  }
  ASSUME(defined);
  verif_root = &n; root_defined = 1; gv_root = want;
  (void)verif_ival(0); (void)verif_dval(0); (void)bits(0); (void)trunc64(0);
  eval2(&n, 0);
  REACH("eval2 returns");
}
