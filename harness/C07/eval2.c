// C07.1/.2  integer constant folder: real parse.c eval2 under a recursive contract.
// The node under proof has kind KIND (concrete per job); operand types and values are symbolic.
// Children are abstract nodes: the recursive calls eval2(child) are replaced by the same contract, which
// yields "any canonical value of the child's type" (ghost table verif_val).  The obligation is that the
// result equals the C11 value of the operator applied to those values, in the node's type.
#include "verif.h"
#include "parse.c"
#include "c11_ops.h"

#ifndef KIND
#define KIND ND_ADD
#endif

Node *gk[3]; int64_t gv[4]; Node *verif_root; _Bool verif_root_defined; _Bool verif_root_any;   /* any: the value is unspecified (undefined operation), only 'no trap' is required */
int64_t verif_val(Node *n) { return n == gk[0] ? gv[0] : n == gk[1] ? gv[1] : n == gk[2] ? gv[2] : gv[3]; }

static int64_t eval2(Node *node, char ***label)
__CPROVER_requires(node != 0 && node->ty != 0 && label == 0)
__CPROVER_assigns()
__CPROVER_ensures(__CPROVER_return_value == verif_val(node) || (node == verif_root && verif_root_any))
__CPROVER_ensures(node != verif_root || verif_root_defined)   /* undefined evaluation never returns normally (it is diagnosed) */
;

// add_type on an already-typed node is a no-op ("if (!node || node->ty) return;"); proved by job add_type-noop
void add_type(Node *node)
__CPROVER_requires(node == 0 || node->ty != 0)
__CPROVER_assigns()
__CPROVER_ensures(1)
;

static Type T[10];
static SpecTy st(Type *t) { SpecTy s = { t->size, t->is_unsigned || t->kind == TY_BOOL, t->kind == TY_BOOL }; return s; }
static void mk_types(void) {
  // the integer types as type.c defines them (checked against the real initialisers by C08.1)
  T[0] = (Type){TY_BOOL, 1, 1};
  T[1] = (Type){TY_CHAR, 1, 1}; T[2] = (Type){TY_CHAR, 1, 1, 1};
  T[3] = (Type){TY_SHORT, 2, 2}; T[4] = (Type){TY_SHORT, 2, 2, 1};
  T[5] = (Type){TY_INT, 4, 4}; T[6] = (Type){TY_INT, 4, 4, 1};
  T[7] = (Type){TY_LONG, 8, 8}; T[8] = (Type){TY_LONG, 8, 8, 1};
  T[9] = (Type){TY_ENUM, 4, 4};
  ty_bool = &T[0]; ty_char = &T[1]; ty_uchar = &T[2]; ty_short = &T[3]; ty_ushort = &T[4];
  ty_int = &T[5]; ty_uint = &T[6]; ty_long = &T[7]; ty_ulong = &T[8];
}
#define ARITH_TY(i) ((i) >= 5 && (i) <= 8)   /* int, uint, long, ulong: what usual arithmetic conversion yields */

void harness(void) {
  mk_types();
  Token tok = {0};
  Node a = {0}, b = {0}, c = {0}, n = {0};
  IN(int, ta); IN(int, tb); IN(int, tc); IN(int, tn);
  ASSUME(0 <= ta && ta <= 9 && 0 <= tb && tb <= 9 && 0 <= tc && tc <= 9 && 0 <= tn && tn <= 9);
#ifdef FIX_TN
  tn = FIX_TN; ta = FIX_TN; tb = FIX_TN; tc = 5;   /* concrete type indices: keeps every Type pointer concrete for symex */
#endif
  IN(int64_t, va); IN(int64_t, vb); IN(int64_t, vc);
  a.ty = &T[ta]; b.ty = &T[tb]; c.ty = &T[tc]; n.ty = &T[tn];
#ifdef LITERAL
  // make the operand values canonical by construction (conversion of an arbitrary 64-bit pattern) rather than by
  // assumption, so that the wrap the folder applies to each operand simplifies away syntactically
  va = spec_conv(st(a.ty), va); vb = spec_conv(st(b.ty), vb); vc = spec_conv(st(c.ty), vc);
#endif
  a.tok = b.tok = c.tok = n.tok = &tok;
#if defined(VERIF_NATIVE) || defined(LITERAL)
  // LITERAL: operands are number nodes carrying the symbolic values, the real recursion is executed (no contract
  // replacement), so operand values reach the operator syntactically.  Used where a fresh contract result would
  // force the solver to prove two 64-bit multipliers/dividers equivalent.  Also the native replay form.
  a.kind = b.kind = c.kind = ND_NUM; a.val = va; b.val = vb; c.val = vc;
#else
  a.kind = b.kind = c.kind = ND_NULL_EXPR;
#endif
  n.kind = KIND;
  gk[0] = &a; gk[1] = &b; gk[2] = &c; gv[0] = va; gv[1] = vb; gv[2] = vc;
  ASSUME(spec_canon(st(a.ty), va) && spec_canon(st(b.ty), vb) && spec_canon(st(c.ty), vc));
#ifdef RHS_M1
  ASSUME(vb == -1);      /* the one divisor for which the host's own division can trap besides 0: x / -1 and x % -1 with x == INT64_MIN */
#endif
#ifdef BOUND_BITS
  ASSUME(-(1L << BOUND_BITS) < va && va < (1L << BOUND_BITS) && -(1L << BOUND_BITS) < vb && vb < (1L << BOUND_BITS));
#endif
  SpecTy sn = st(n.ty), sa = st(a.ty);
  int64_t want = 0; _Bool defined = 1;
  verif_root = &n;

  switch (KIND) {
  case ND_ADD: case ND_SUB: case ND_MUL: case ND_DIV: case ND_MOD: case ND_BITAND: case ND_BITOR: case ND_BITXOR: {
    // typed as add_type leaves it: both operands converted to the common type, which is the node's type
    ASSUME(ARITH_TY(tn) && ta == tn && tb == tn);
    n.lhs = &a; n.rhs = &b;
    int op = KIND == ND_ADD ? OP_ADD : KIND == ND_SUB ? OP_SUB : KIND == ND_MUL ? OP_MUL : KIND == ND_DIV ? OP_DIV :
             KIND == ND_MOD ? OP_MOD : KIND == ND_BITAND ? OP_AND : KIND == ND_BITOR ? OP_OR : OP_XOR;
    defined = spec_defined(op, sn, va, vb);
    if (defined) want = spec_arith(op, sn, va, vb);
    break; }
  case ND_SHL: case ND_SHR: {
    // C11 6.5.7: the result has the type of the promoted left operand; the count keeps its own (promoted) type
    ASSUME(ARITH_TY(tn) && ta == tn && ARITH_TY(tb));
    n.lhs = &a; n.rhs = &b;
    int op = KIND == ND_SHL ? OP_SHL : OP_SHR;
    defined = spec_shift_defined(op, sn, va, vb);
    if (defined) want = spec_shift(op, sn, va, vb);
    break; }
  case ND_EQ: case ND_NE: case ND_LT: case ND_LE: {
    ASSUME(tn == 5 && ARITH_TY(ta) && tb == ta);
    n.lhs = &a; n.rhs = &b;
    want = spec_cmp(KIND == ND_EQ ? OP_EQ : KIND == ND_NE ? OP_NE : KIND == ND_LT ? OP_LT : OP_LE, sa, va, vb);
    break; }
  case ND_NEG: case ND_BITNOT: {
    ASSUME(ARITH_TY(tn) && ta == tn);
    n.lhs = &a;
    defined = spec_defined(KIND == ND_NEG ? OP_NEG : OP_BITNOT, sn, va, 0);
    if (defined) want = spec_arith(KIND == ND_NEG ? OP_NEG : OP_BITNOT, sn, va, 0);
    break; }
  case ND_NOT:
    ASSUME(tn == 5); n.lhs = &a; want = (va == 0); break;
  case ND_LOGAND:
    ASSUME(tn == 5); n.lhs = &a; n.rhs = &b; want = (va != 0) && (vb != 0); break;
  case ND_LOGOR:
    ASSUME(tn == 5); n.lhs = &a; n.rhs = &b; want = (va != 0) || (vb != 0); break;
  case ND_COND:
    ASSUME(ta == tn && tb == tn); n.cond = &c; n.then = &a; n.els = &b; want = vc != 0 ? va : vb; break;
  case ND_COMMA:
    ASSUME(tb == tn); n.lhs = &a; n.rhs = &b; want = vb; break;
  case ND_CAST:
    n.lhs = &a; want = spec_conv(sn, va); break;     /* every integer type to every integer type, incl. _Bool and enum */
  case ND_NUM:
    IN(int64_t, vn); ASSUME(spec_canon(sn, vn)); n.val = vn; want = vn; break;
  }
  gv[3] = want;
  // Division by zero must be diagnosed (the property names it); other undefined evaluations (signed overflow,
  // oversized shift) have no required outcome and are excluded from the value obligation.  INT_MIN / -1 is
  // covered by the separate trap job (-DTRAP_CASE).
  _Bool divzero = (KIND == ND_DIV || KIND == ND_MOD) && vb == 0;
#ifdef TRAP_CASE
  ASSUME(!defined && !divzero);
  verif_root_any = 1;
#else
  verif_root_any = 0;
  ASSUME(defined || divzero);
#endif
  verif_root_defined = !divzero;
#ifdef DIVKIND
  if (divzero) { REACH("zero divisor explored"); }
#endif
#ifndef TRAP_CASE
  if (defined) { REACH("defined operand values explored"); }
#endif
#if defined(VERIF_NATIVE) || defined(LITERAL)
  if (!defined) NOTE("operands for which C11 leaves the result undefined: a diagnostic (exit) is required, a trap is a failure");
  int64_t got = eval2(&n, 0);
  if (divzero) OBLIGE(0, "C07.2 division by zero in a constant expression is diagnosed (eval2 returned normally)");
  else if (!defined) NOTE("no trap");
  else OBLIGE(got == want, "C07.1 folded value equals the C11 value in the node's type");
#else
  (void)verif_val(0);
  eval2(&n, 0);
#ifndef DIVKIND
  REACH("eval2 returns");
#else
  if (!divzero) REACH("eval2 returns");
#endif
#endif
}
VERIF_MAIN
