// C04.5  local frame layout: real assign_lvar_offsets (second loop) for a function with three locals of symbolic size
// (alignment concrete per job: it is a divisor).  Objects must be pairwise disjoint, aligned (arrays of 16 bytes or
// more to 16), below rbp, inside a 16-aligned frame.  Bounded: 3 locals.
#include "cg_harness.h"
int nondet_int_(void); _Bool nondet_bool_(void);
void harness(void) {
  cg_init();
  static Obj L[3]; Obj fn = {0}; static Type T[3];
  const int al[3] = {A0, A1, A2};
  for (int i = 0; i < 3; i++) {
    int cnt = nondet_int_(); ASSUME(1 <= cnt && cnt <= 40);
    _Bool arr = nondet_bool_();
    T[i] = (Type){arr ? TY_ARRAY : TY_STRUCT, cnt, 1}; T[i].size = cnt * (arr ? 1 : al[i]); if (!arr) T[i].size = cnt * al[i];
    L[i] = (Obj){0}; L[i].ty = &T[i]; L[i].align = al[i]; L[i].is_local = 1; L[i].next = i < 2 ? &L[i + 1] : 0;
  }
  fn.is_function = 1; fn.locals = &L[0]; fn.params = 0; fn.next = 0;
  assign_lvar_offsets(&fn);
  REACH("returns");
  OBLIGE(fn.stack_size % 16 == 0, "C04.5 the frame size is a multiple of 16");
  for (int i = 0; i < 3; i++) {
    int need = (T[i].kind == TY_ARRAY && T[i].size >= 16) ? (al[i] > 16 ? al[i] : 16) : al[i];
    OBLIGE(L[i].offset < 0 && -L[i].offset <= fn.stack_size && L[i].offset + T[i].size <= 0, "C04.5 every local lies inside the frame, below rbp");
    OBLIGE((-L[i].offset) % need == 0, "C04.5 every local is aligned to its alignment (arrays of 16 bytes or more: at least 16)");
    for (int j = 0; j < i; j++) OBLIGE(L[j].offset + T[j].size <= L[i].offset || L[i].offset + T[i].size <= L[j].offset, "C04.5 simultaneously live locals never overlap");
  }
}
