from engine.core import Job
CG = dict(units=["type.c"], mode="dfcc", enforce="gen_expr", rec=True, replace=["gen_stmt"], cut=["error", "error_tok", "error_at", "warn_tok"],
          no_checks=["signed-overflow", "undefined-shift"], timeout=400)
META = dict(
    level="proof",
    claim="Bit-field reads return exactly the field's bits (zero/sign extended), bit-field writes replace exactly those bits of the storage unit and no other bit or byte, for every storage size, signedness, position, width, address, memory content and value; scalar loads/stores touch exactly the object's bytes (shared with C01.4). Real gen_expr/gen_addr/load/store on the ghost byte memory, recursive contract.",
    note="Trusted: CBMC, ghost x86 machine, the layout invariant of C08 as precondition. Also: whole-aggregate assignment and zero fill write exactly the object's bytes (per size), and the local frame layout is overlap-free and aligned (3 locals, bounded). _Bool bit-fields are read zero-extended. Not covered in this revision: 64-bit wide bit-fields' masks (host shift semantics, DESIGN I.4), member lookup through anonymous aggregates, VLA/alloca, pointer arithmetic scaling.",
    functions=["parse.c:struct_decl", "codegen.c:gen_expr", "codegen.c:gen_addr", "codegen.c:load", "codegen.c:store", "codegen.c:push", "codegen.c:pop", "codegen.c:assign_lvar_offsets", "codegen.c:align_to", "parse.c:new_add", "parse.c:new_sub"],
    trusted_base=["CBMC 6.11", "spec/x86_ghost.h"],
    assumptions=["the pointer operand and the assigned value are abstract side-effect-free expressions"],
)
def jobs(tier):
    js = []
    for sz in (1, 2, 4, 8):
        for uns in (0, 1):
            for wr in (0, 1):
                js.append(Job(name=f"bitfield-{'write' if wr else 'read'}-{sz}-{'u' if uns else 's'}", src="bitfield.c", group="C04.1/.2 bit-fields",
                              defs={"SZ": str(sz), "UNS": str(uns), "WRITE": str(wr)},
                              sample=f"bit-field {'assignment' if wr else 'read'}: {sz}-byte {'unsigned' if uns else 'signed'} storage unit, every offset/width/address/memory", **CG))
    for wr in (0, 1):
        js.append(Job(name=f"bitfield-{'write' if wr else 'read'}-bool", src="bitfield.c", group="C04.1/.2 bit-fields", defs={"SZ": "1", "UNS": "1", "WRITE": str(wr), "BOOLUNIT": "1"},
                      sample=f"_Bool bit-field {'assignment' if wr else 'read'}: every offset/address/memory", **CG))
    PL = dict(units=["type.c"], mode="plain", cut=["error", "error_tok", "error_at", "warn_tok"], no_checks=["signed-overflow", "undefined-shift"], timeout=600, replay=None)
    for sz in (1, 2, 3, 4, 6, 7, 8, 12, 17):
        js.append(Job(name=f"aggcopy-{sz}", src="aggcopy.c", group="C04.3 aggregate copy", defs={"SZ": str(sz), "MEMZERO": "0"}, sample=f"store() of a {sz}-byte struct, arbitrary addresses and memory", **PL))
    for sz in (1, 5, 8, 24):
        js.append(Job(name=f"memzero-{sz}", src="aggcopy.c", group="C04.3 zero fill", defs={"SZ": str(sz), "MEMZERO": "1"}, units=["type.c"], mode="dfcc", enforce="gen_expr", rec=True, replace=["gen_stmt"],
                      cut=["error", "error_tok", "error_at", "warn_tok"], no_checks=["signed-overflow", "undefined-shift"], timeout=400, replay=None, sample=f"ND_MEMZERO of a {sz}-byte local"))
    for opn, nm in ((0, "add"), (1, "sub"), (2, "diff")):
        js.append(Job(name=f"ptrarith-{nm}", src="../C01/ptrarith.c", group="C04 pointer arithmetic scaling", defs={"OPN": str(opn)}, units=["type.c", "hashmap.c", "strings.c"], mode="plain",
                      cut=["error", "error_tok", "error_at", "warn_tok"], havoc=["format"], cut_defined=["rehash"], timeout=180, unwind=20, replay=None,
                      sample=f"pointer {'+' if opn == 0 else '-'} scaling incl. VLA rows"))
    for (a0, a1, a2) in ((1, 4, 8), (8, 1, 2), (16, 1, 4), (2, 32, 1)):
        js.append(Job(name=f"frame-{a0}-{a1}-{a2}", src="frame.c", group="C04.5 frame layout", defs={"A0": str(a0), "A1": str(a1), "A2": str(a2)}, unwind=12, unwindset=[f"cg_init.{k}:300" for k in range(4)],
                      bounded="3 locals per function", sample=f"assign_lvar_offsets: three locals with alignments {a0},{a1},{a2}, symbolic sizes", **PL))
    # the layout invariant (fields inside their unit, no overlap) is what makes "exactly its bits" meaningful: four of the
    # C08 struct-layout jobs are part of this property's check as well (the full set runs under C08)
    for (a, b, c) in ((8, 2, 4), (4, 4, 4), (1, 4, 2), (2, 8, 1)):
        js.append(Job(name=f"layout-struct-{a}-{b}-{c}", src="../C08/layout.c", group="C04.4 bit-field placement", defs={"S0": str(a), "S1": str(b), "S2": str(c)}, units=["type.c", "codegen.c"],
                      mode="legacy", replace=["struct_union_decl"], cut=["error", "error_tok", "error_at", "verror_at", "warn_tok"], unwind=5, timeout=600, replay=None,
                      bounded="3 members per aggregate", sample=f"struct_decl on up to 3 members with type sizes {a},{b},{c}: bit-fields inside their unit, no overlap"))
    return js
