from engine.core import Job
CG = dict(units=["type.c"], mode="dfcc", enforce="gen_expr", rec=True, replace=["gen_stmt"], cut=["error", "error_tok", "error_at", "warn_tok"],
          no_checks=["signed-overflow", "undefined-shift"], timeout=400)
META = dict(
    level="proof",
    claim="Bit-field reads return exactly the field's bits (zero/sign extended), bit-field writes replace exactly those bits of the storage unit and no other bit or byte, for every storage size, signedness, position, width, address, memory content and value; scalar loads/stores touch exactly the object's bytes (shared with C01.4). Real gen_expr/gen_addr/load/store on the ghost byte memory, recursive contract.",
    note="Trusted: CBMC, ghost x86 machine, the layout invariant of C08 as precondition. Not covered in this revision: member lookup through anonymous aggregates, aggregate copy extent, frame layout disjointness, VLA/alloca.",
    functions=["codegen.c:gen_expr", "codegen.c:gen_addr", "codegen.c:load", "codegen.c:store", "codegen.c:push", "codegen.c:pop"],
    trusted_base=["CBMC 6.11", "spec/x86_ghost.h"],
    assumptions=["the pointer operand and the assigned value are abstract side-effect-free expressions"],
)
def jobs(tier):
    js = []
    for sz in (1, 2, 4, 8):
        for uns in (0, 1):
            for wr in (0, 1):
                js.append(Job(name=f"bitfield-{'write' if wr else 'read'}-{sz}-{'u' if uns else 's'}", src="bitfield.c", group="C04.1/.2 bit-fields",
                              defs={"SZ": str(sz), "UNS": str(uns), "WRITE": str(wr)},
                              sample=f"bit-field {'assignment' if wr else 'read'}: {sz}-byte {'unsigned' if uns else 'signed'} storage unit, every offset/width/address/memory", **CG))
    return js
