// C04.3  whole-aggregate assignment and zero fill: real store() for a struct of SZ bytes (concrete per job: it is the
// trip count of the emitted copy) and real gen_expr(ND_MEMZERO), on the ghost byte memory.  Source and destination
// addresses and the whole memory content symbolic.  Exactly the object's bytes are written.
#include "cg_harness.h"
void harness(void) {
  cg_init();
  Type ST = {TY_STRUCT, SZ, 1};
  const uint64_t src = 24, dst = 136;   /* two distinct objects at fixed places (the emitted code only uses offsets relative to them); contents symbolic */
  IN(int, probe);
  ASSUME(0 <= probe && probe < GM_DM);
  unsigned char before = gm_dm[probe];
  unsigned char srcb = gm_dm[(probe >= (int)dst && probe < (int)dst + SZ) ? src + (probe - dst) : 0];
  CG_ENTRY_STATE(1);
#if MEMZERO
  Node n = {0}; Obj var = {0}; var.ty = &ST; var.is_local = 1; var.offset = -((int)(GM_RBP - GM_DM_BASE) - (int)dst);   /* a local at rbp+offset == dst */
  cg_node(&n, ND_MEMZERO, &CGT[TI_VOID]); n.var = &var; cg_root = &n; cg_check_val = 0;
  m.sp = 0; depth = 0;
  (void)verif_val(0); (void)cg_holds(&ST, 0); (void)cg_x87_delta(&ST);
  gen_expr(&n);
  REACH("returns");
  _Bool inside = probe >= (int)dst && probe < (int)dst + SZ;
  OBLIGE(!m.unknown && !m.bad, "C04.3 zero-fill text understood");
  OBLIGE(inside ? gm_dm[probe] == 0 : gm_dm[probe] == before, "C04.3 zero fill clears exactly the object's bytes");
#else
  gm_stk[0] = GM_DM_BASE + dst; m.r[RAX] = GM_DM_BASE + src;      /* store(): destination address on the stack top, source address in rax */
  store(&ST);
  REACH("returns");
  _Bool inside = probe >= (int)dst && probe < (int)dst + SZ;
  OBLIGE(!m.unknown && !m.bad && m.sp == 0 && depth == 0, "C04.3 aggregate copy text understood; the destination address is popped");
  OBLIGE(inside ? gm_dm[probe] == srcb : gm_dm[probe] == before, "C04.3 aggregate assignment copies exactly size bytes: every byte of the object, no byte outside it");
#endif
}
