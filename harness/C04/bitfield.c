// C04.1/.2  bit-field read and write through real gen_expr (ND_MEMBER / ND_ASSIGN) on the ghost byte memory.
// Storage-unit size SZ and signedness UNS are concrete per job (they select instruction text); bit offset, width,
// the object address, the whole memory content and the assigned value are symbolic.
#include "cg_harness.h"
void harness(void) {
  cg_init();
  Node p = {0}, d = {0}, mnode = {0}, v = {0}, n = {0};
  Member mem = {0};
#ifdef BOOLUNIT   /* a _Bool bit-field: unsigned by nature although type.c does not set is_unsigned for _Bool; width 1 */
  Type FT = {TY_BOOL, 1, 1, 0};
#else
  Type FT = {SZ == 1 ? TY_CHAR : SZ == 2 ? TY_SHORT : SZ == 4 ? TY_INT : TY_LONG, SZ, SZ, UNS};
#endif
  Type ST = {TY_STRUCT, 16, 8};
  IN(uint64_t, addr_off); IN(int, bo); IN(int, bw); IN(int, moff); IN(uint64_t, val); IN(int, probe);
  ASSUME(addr_off >= 16 && addr_off <= 96 && addr_off % 8 == 0);
  ASSUME(moff >= 0 && moff <= 8 && moff % SZ == 0);                       /* storage unit aligned to its type (C08.3) */
  ASSUME(bw >= 1 && bw <= 64 && bo >= 0 && bo <= 64 && bo + bw <= SZ * 8);                        /* field inside its unit (C08.3) */
  ASSUME(0 <= probe && probe < GM_DM);
#ifdef BOOLUNIT
  ASSUME(bw == 1);
#endif
  uint64_t base = GM_DM_BASE + addr_off;
  mem.ty = &FT; mem.offset = moff; mem.is_bitfield = 1; mem.bit_offset = bo; mem.bit_width = bw;
  cg_node(&p, ND_NULL_EXPR, &CGT[TI_PTR]); cg_node(&d, ND_DEREF, &ST); d.lhs = &p;
  cg_node(&mnode, ND_MEMBER, &FT); mnode.lhs = &d; mnode.member = &mem;
  cg_child[0] = &p; cg_val[0] = base;
  uint64_t unit_addr = addr_off + moff;
  uint64_t unit = 0;
  for (int i = 0; i < 8; i++) if (i < SZ) unit |= (uint64_t)gm_dm[unit_addr + i] << (8 * i);
  uint64_t fmask = bw == 64 ? ~0UL : ((1UL << bw) - 1);
  unsigned char before = gm_dm[probe];
#ifdef BOOLUNIT
  SpecTy ft = {1, 1, 1};
#else
  SpecTy ft = {SZ, UNS, 0};
#endif
#if WRITE
  cg_node(&v, ND_NULL_EXPR, &FT); cg_node(&n, ND_ASSIGN, &FT); n.lhs = &mnode; n.rhs = &v;
  ASSUME(spec_canon(ft, (int64_t)val));
  cg_child[1] = &v; cg_val[1] = val; cg_root = &n;
  // C11 6.5.16p3: the value of the assignment is the value of the left operand after the assignment
  uint64_t stored = val & fmask;
  int64_t fieldval = UNS ? (int64_t)stored : (bw == 64 ? (int64_t)stored : (int64_t)((stored ^ (1UL << (bw - 1))) - (1UL << (bw - 1))));
  cg_val[CG_NCHILD] = (uint64_t)spec_conv(ft, fieldval);
#else
  cg_root = &mnode;
  uint64_t raw = (unit >> bo) & fmask;
  int64_t fieldval = UNS ? (int64_t)raw : (bw == 64 ? (int64_t)raw : (int64_t)((raw ^ (1UL << (bw - 1))) - (1UL << (bw - 1))));
  cg_val[CG_NCHILD] = (uint64_t)spec_conv(ft, fieldval);
#endif
  CG_ENTRY_STATE(1);
  (void)verif_val(0); (void)cg_holds(&FT, 0); (void)cg_x87_delta(&FT);
  gen_expr(cg_root);
  REACH("gen_expr returns");
#if WRITE
  uint64_t unit2 = 0;
  for (int i = 0; i < 8; i++) if (i < SZ) unit2 |= (uint64_t)gm_dm[unit_addr + i] << (8 * i);
  OBLIGE(((unit2 >> bo) & fmask) == (val & fmask), "C04.2 the field holds the low bit_width bits of the assigned value");
  OBLIGE((unit2 & ~(fmask << bo)) == (unit & ~(fmask << bo)), "C04.2 every other bit of the storage unit is unchanged (neighbouring bit-fields undisturbed)");
  _Bool inside = (uint64_t)probe >= unit_addr && (uint64_t)probe < unit_addr + SZ;
  OBLIGE(inside || gm_dm[probe] == before, "C04.2 no byte outside the storage unit is written");
#else
  OBLIGE(gm_dm[probe] == before, "C04.1 reading a bit-field writes nothing");
#endif
}
