from engine.core import Job
META = dict(
    level="other",
    claim="Hide-set mechanics behind termination of macro expansion, on the real preprocess.c: union/intersection/membership are the set operations (exact-name membership) for all hide sets of up to 2 names over a 3-name pool; expand_macro never expands a name that is in the invoking token's hide set, and otherwise every token of an object-like expansion carries the macro's name plus the invoker's hide set, the invocation as origin, and the invocation's line-start/white-space flags; a function-like macro name without '(' is left alone.",
    note="Bounded (hide sets of at most 2 names; one two-token replacement list). Stand-in stub: find_macro. Also: subst() on three replacement lists with ## and every empty/non-empty argument combination concatenates exactly the non-empty operands, lets placemarkers vanish, never pastes a neighbouring token and diagnoses none of them (paste is a stand-in stub). Not covered: parameter pre-expansion, #, ,##__VA_ARGS__, __VA_OPT__, argument collection, function-like application, rescanning order; termination itself is the usual finite-measure argument over these two lemmas and is not machine-checked.",
    functions=["preprocess.c:read_macro_arg_one", "preprocess.c:join_tokens", "preprocess.c:subst", "preprocess.c:find_arg", "preprocess.c:hideset_union", "preprocess.c:hideset_intersection", "preprocess.c:hideset_contains", "preprocess.c:new_hideset", "preprocess.c:add_hideset", "preprocess.c:expand_macro", "preprocess.c:append", "preprocess.c:copy_token"],
    trusted_base=["CBMC 6.11"],
    assumptions=["find_macro stand-in stub", "ghost equal()"],
    explanation="bounded harnesses on the hide-set functions and the object-like arm of expand_macro",
)
CUT = ["error", "error_tok", "error_at", "verror_at", "warn_tok"]
def jobs(tier):
    P = dict(mode="plain", cut=CUT, units=[], timeout=600, replay=None, unwind=12)
    return [Job(name="hideset-algebra", src="hideset.c", group="C09.1 hide sets", defs={"FN": "0"}, bounded="hide sets of <= 2 names over a pool of 3", sample="union/intersection/contains on every pair of hide sets", **P),
            Job(name="expand-objlike", src="hideset.c", group="C09.2 application discipline", defs={"FN": "1"}, redirect={"find_macro": "stub_find_macro"}, bounded="one object-like macro, 2-token body", sample="expand_macro on an object-like macro with a symbolic hide set", **P),
            *[Job(name=f"paste-placemarkers-{sc}", src="subst.c", group="C09.3 ## and placemarkers", defs={"SCEN": str(sc)}, redirect={"paste": "stub_paste", "preprocess2": "stub_preprocess2"}, cbmc_flags=["--paths lifo"],
                  bounded="three replacement lists, arguments empty or one token", sample=["x ## y ## z", "w x ## y ## z", "x ## y q", "x q y"][sc] + " with every empty/non-empty argument combination", **dict(P, cut=["error", "error_at", "verror_at", "warn_tok"], unwind=16)) for sc in range(4)],
            *[Job(name=f"macro-arg-k{k}", src="args.c", group="C09.5 argument collection", defs={"NA": "4", "K0": str(k)}, cbmc_flags=["--paths lifo"],
                  bounded="token sequences of length <= 4 over ( ) , { } x", sample="read_macro_arg_one on every sequence of up to 4 tokens", **dict(P, unwind=10)) for k in range(6)],
            Job(name="stringize-spacing", src="stringize.c", group="C09.4 # operator", bounded="three-token argument", sample="join_tokens on a three-token argument with symbolic white-space flags", **dict(P, unwind=10)),
            Job(name="expand-empty", src="hideset.c", group="C09.2 application discipline", defs={"FN": "3"}, redirect={"find_macro": "stub_find_macro"}, bounded="one object-like macro with an empty body", sample="expand_macro on an empty object-like macro followed by a token with symbolic flags", **P),
            Job(name="expand-hash", src="hideset.c", group="C09.2 application discipline", defs={"FN": "4"}, redirect={"find_macro": "stub_find_macro"}, bounded="one object-like macro whose body is #", sample="expand_macro producing a '#' at a line start", **P),
            Job(name="expand-funclike-noparen", src="hideset.c", group="C09.2 application discipline", defs={"FN": "2"}, redirect={"find_macro": "stub_find_macro"}, bounded="one function-like macro", sample="function-like macro name not followed by '('", **P)]
