// C09.3  ## with empty operands (placemarkers, C11 6.10.3.3p2-3): the real preprocess.c subst() on the replacement lists
//   SCEN 0:  x ## y ## z        SCEN 1:  w x ## y ## z        SCEN 2:  x ## y q
// with every combination of empty / one-token arguments for the parameters (concretised path by path).
// The result must be: the concatenation of the non-empty operands as ONE token (nothing if all are empty: a
// placemarker disappears), a neighbouring token that is not an operand of ## is never pasted, and no combination is
// diagnosed (6.10.3.3p3: t(,,) is valid).  Stand-in stub: paste (yields one token spelled lhs+rhs; that the real paste
// re-tokenises is the tokenizer's business).  equal() is the real predicate's meaning on concrete spellings.
#include "verif.h"
#include "preprocess.c"
StringArray include_paths; char *base_file; bool opt_fpic; bool opt_fcommon;
bool file_exists(char *p) { return 0; }
bool equal(Token *tok, char *op) { size_t n = strlen(op); return (size_t)tok->len == n && !memcmp(tok->loc, op, n); }
static File F;
static void mk(Token *t, TokenKind k, char *s, Token *next) { *t = (Token){0}; t->kind = k; t->loc = s; t->len = (int)strlen(s); t->next = next; t->file = &F; }
static Token PT[4]; static int npt; static char PB[4][8];
Token *stub_paste(Token *lhs, Token *rhs) {
  int k = npt < 3 ? npt : 3; npt++; int j = 0;
  for (int i = 0; i < lhs->len && j < 7; i++) PB[k][j++] = lhs->loc[i];
  for (int i = 0; i < rhs->len && j < 7; i++) PB[k][j++] = rhs->loc[i];
  PB[k][j] = 0;
  static Token E; mk(&E, TK_EOF, "", &E);
  mk(&PT[k], TK_IDENT, PB[k], &E);
  return &PT[k];
}
// stand-in for the full macro expansion of an argument: counts its uses (identity on the tokens)
static int npre;
Token *stub_preprocess2(Token *tok) { npre++; return tok; }
// a valid invocation is never diagnosed
void error_tok(Token *tok, char *fmt, ...) { OBLIGE(0, "C09.3 ## with empty operands is valid and is not diagnosed"); ASSUME(0); }
int nondet_int_(void);
static _Bool pick(void) { switch (nondet_int_()) { case 0: return 0; default: return 1; } }
void harness(void) {
  static Token B[8], AX[2], AY[2], AZ[2], EOFT; static MacroArg MA[3];
  mk(&EOFT, TK_EOF, "", &EOFT);
  _Bool ex = pick(), ey = pick(), ez = pick();         /* argument present (one token) or empty */
  mk(&AX[0], TK_NUM, "1", &AX[1]); mk(&AX[1], TK_EOF, "", &AX[1]);
  mk(&AY[0], TK_NUM, "2", &AY[1]); mk(&AY[1], TK_EOF, "", &AY[1]);
  mk(&AZ[0], TK_NUM, "3", &AZ[1]); mk(&AZ[1], TK_EOF, "", &AZ[1]);
  MA[0] = (MacroArg){&MA[1], "x", 0, ex ? &AX[0] : &AX[1]};
  MA[1] = (MacroArg){&MA[2], "y", 0, ey ? &AY[0] : &AY[1]};
  MA[2] = (MacroArg){0, "z", 0, ez ? &AZ[0] : &AZ[1]};
  int n = 0;
#if SCEN == 1
  mk(&B[n], TK_IDENT, "w", &B[n + 1]); n++;
#endif
#if SCEN == 3      /* x q y : no ## - every argument is fully macro-expanded before it is substituted (6.10.3.1) */
  mk(&B[n], TK_IDENT, "x", &B[n + 1]); n++; mk(&B[n], TK_IDENT, "q", &B[n + 1]); n++; mk(&B[n], TK_IDENT, "y", &B[n + 1]); n++; ez = 0;
  mk(&B[n], TK_EOF, "", &B[n]);
  npt = 0; npre = 0;
  Token *o3 = subst(&B[0], MA);
  REACH("returns");
  OBLIGE(npre == 2, "C09.3 a parameter that is not an operand of # or ## is replaced by its completely macro-expanded argument");
  { Token *p = o3; _Bool ok = 1;
    if (ex) { ok &= p->kind != TK_EOF && p->loc[0] == '1'; if (p->kind != TK_EOF) p = p->next; }
    ok &= p->kind != TK_EOF && p->loc[0] == 'q'; if (p->kind != TK_EOF) p = p->next;
    if (ey) { ok &= p->kind != TK_EOF && p->loc[0] == '2'; if (p->kind != TK_EOF) p = p->next; }
    ok &= p->kind == TK_EOF;
    OBLIGE(ok, "C09.3 substitution puts each argument's tokens in the place of its parameter");
  }
#else
  mk(&B[n], TK_IDENT, "x", &B[n + 1]); n++; mk(&B[n], TK_PUNCT, "##", &B[n + 1]); n++; mk(&B[n], TK_IDENT, "y", &B[n + 1]); n++;
#if SCEN == 2
  mk(&B[n], TK_IDENT, "q", &B[n + 1]); n++; ez = 0;
#else
  mk(&B[n], TK_PUNCT, "##", &B[n + 1]); n++; mk(&B[n], TK_IDENT, "z", &B[n + 1]); n++;
#endif
  mk(&B[n], TK_EOF, "", &B[n]);
  npt = 0; npre = 0;
  Token *out = subst(&B[0], MA);
  REACH("returns");
  OBLIGE(npre == 0, "C09.3 an operand of ## is substituted unexpanded (6.10.3.1p1)");
  // expected spelling sequence
  char want[8]; int j = 0; if (ex) want[j++] = '1'; if (ey) want[j++] = '2'; if (ez) want[j++] = '3'; want[j] = 0;
  Token *p = out; _Bool ok = 1;
#if SCEN == 1
  ok &= p->kind != TK_EOF && p->len == 1 && p->loc[0] == 'w'; if (p->kind != TK_EOF) p = p->next;
#endif
  if (j > 0) { ok &= p->kind != TK_EOF && p->len == j; for (int i = 0; i < j && i < p->len; i++) ok &= p->loc[i] == want[i]; if (p->kind != TK_EOF) p = p->next; }
#if SCEN == 2
  ok &= p->kind != TK_EOF && p->len == 1 && p->loc[0] == 'q'; if (p->kind != TK_EOF) p = p->next;
#endif
  ok &= p->kind == TK_EOF;
  OBLIGE(ok, "C09.3 ## concatenates exactly its non-empty operands into one token; empty operands vanish; tokens that are not operands of ## are left alone");
#endif
}
