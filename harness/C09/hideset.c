// C09.1/.2  hide sets and macro application discipline (real preprocess.c):
//  FN 0: hideset_union / hideset_intersection / hideset_contains against set semantics, for all pairs of hide sets of up
//        to 2 names over the pool {A, AB, C} (AB tests that a name is not matched by its prefix).
//  FN 1: expand_macro on an object-like macro: a name that is in the token's own hide set is never expanded (the
//        termination argument of C11 6.10.3.4p2); otherwise every token of the expansion carries the macro's name and the
//        invoking token's hide set, points back to the invocation (origin), and the first produced token inherits the
//        invocation's line-start / white-space flags.
//  FN 2: a function-like macro name not followed by '(' is left alone.
#include "verif.h"
#include "preprocess.c"
StringArray include_paths; char *base_file; bool opt_fpic; bool opt_fcommon;
bool file_exists(char *p) { return 0; }
static char *POOL[3] = {"A", "AB", "C"};
int nondet_int_(void); _Bool nondet_bool_(void);
static Hideset HS[4];
static Hideset *mkset(_Bool has0, int n0, _Bool has1, int n1, Hideset *store) {   /* up to two names */
  Hideset *h = 0;
  if (has1) { store[1].name = POOL[n1]; store[1].next = 0; h = &store[1]; }
  if (has0) { store[0].name = POOL[n0]; store[0].next = h; h = &store[0]; }
  return h;
}
static _Bool member(_Bool has0, int n0, _Bool has1, int n1, int k) { return (has0 && n0 == k) || (has1 && n1 == k); }
Macro MAC; Macro *stub_find_macro(Token *tok) { return MAC.name ? &MAC : (Macro *)0; }
bool equal(Token *tok, char *op) { return tok->loc && !strcmp(tok->loc, op); }
void harness(void) {
  _Bool a0 = nondet_bool_(), a1 = nondet_bool_(), b0 = nondet_bool_(), b1 = nondet_bool_();
  int an0 = nondet_int_(), an1 = nondet_int_(), bn0 = nondet_int_(), bn1 = nondet_int_();
  ASSUME(0 <= an0 && an0 < 3 && 0 <= an1 && an1 < 3 && 0 <= bn0 && bn0 < 3 && 0 <= bn1 && bn1 < 3);
  Hideset *ha = mkset(a0, an0, a1, an1, &HS[0]), *hb = mkset(b0, bn0, b1, bn1, &HS[2]);
#if FN == 0
  Hideset *u = hideset_union(ha, hb), *x = hideset_intersection(ha, hb);
  REACH("returns");
  for (int k = 0; k < 3; k++) {
    _Bool ina = member(a0, an0, a1, an1, k), inb = member(b0, bn0, b1, bn1, k);
    int len = (int)strlen(POOL[k]);
    OBLIGE(hideset_contains(ha, POOL[k], len) == ina, "C09.1 hideset_contains is membership by exact name");
    OBLIGE(hideset_contains(u, POOL[k], len) == (ina || inb), "C09.1 hideset_union is set union");
    OBLIGE(hideset_contains(x, POOL[k], len) == (ina && inb), "C09.1 hideset_intersection is set intersection");
  }
#else
  // an invocation token `AB` (a macro name) with hide set ha, followed by token `;`
  Token inv = {0}, nxt = {0}, b1t = {0}, b2t = {0}, eof = {0}, *rest = 0; File f = {0};
  inv.kind = TK_IDENT; inv.loc = "AB"; inv.len = 2; inv.hideset = ha; inv.next = &nxt; inv.at_bol = nondet_bool_(); inv.has_space = nondet_bool_(); inv.file = &f;
  nxt.kind = TK_PUNCT; nxt.loc = ";"; nxt.len = 1; nxt.file = &f;
  b1t.kind = TK_IDENT; b1t.loc = "x"; b1t.len = 1; b1t.next = &b2t; b1t.file = &f; b1t.hideset = hb;
  b2t.kind = TK_IDENT; b2t.loc = "AB"; b2t.len = 2; b2t.next = &eof; b2t.file = &f;        /* the body mentions the macro itself */
  eof.kind = TK_EOF; eof.file = &f;
  MAC = (Macro){0}; MAC.name = "AB"; MAC.body = &b1t;
#if FN == 1
  MAC.is_objlike = 1;
  _Bool hidden = member(a0, an0, a1, an1, 1);
  bool r = expand_macro(&rest, &inv);
  REACH("returns");
  OBLIGE(r == !hidden, "C09.2 a macro name found in the token's own hide set is not expanded; otherwise it is");
  if (!hidden) {
    Token *p = rest, *q = p->next;
    OBLIGE(p != &b1t && q != &b2t && p->len == 1 && q->len == 2 && q->next == &nxt, "C09.2 the expansion is a copy of the replacement list followed by the rest of the input");
    OBLIGE(hideset_contains(p->hideset, "AB", 2) && hideset_contains(q->hideset, "AB", 2), "C09.2 every token of the expansion carries the macro's name in its hide set (so the nested mention cannot expand again)");
    for (int k = 0; k < 3; k++) OBLIGE(!member(a0, an0, a1, an1, k) || (hideset_contains(p->hideset, POOL[k], (int)strlen(POOL[k])) && hideset_contains(q->hideset, POOL[k], (int)strlen(POOL[k]))), "C09.2 ... and inherits the invoking token's hide set");
    OBLIGE(p->origin == &inv && q->origin == &inv, "C09.2 the expansion remembers the invocation token (for __LINE__/__FILE__)");
    OBLIGE(p->at_bol == inv.at_bol && p->has_space == inv.has_space, "C19.3 the first token of the expansion takes over the invocation's line-start and white-space flags");
  }
#elif FN == 3
  // an object-like macro with an EMPTY replacement list: the invocation vanishes and the following source token keeps
  // its own line-start flag (a '#' that starts the next line must stay a directive; a token on the same line must not
  // become one)
  MAC.is_objlike = 1; MAC.body = &eof;
  ASSUME(!member(a0, an0, a1, an1, 1));
  nxt.loc = "#"; nxt.at_bol = nondet_bool_(); nxt.has_space = nondet_bool_(); _Bool bol0 = nxt.at_bol;
  static Token n2; n2 = (Token){0}; n2.kind = TK_EOF; n2.file = &f; nxt.next = &n2;
  bool r = expand_macro(&rest, &inv);
  REACH("returns");
  OBLIGE(r && rest == &nxt, "C09.2 an empty expansion leaves the rest of the input");
  OBLIGE(nxt.at_bol == bol0 && is_hash(&nxt) == bol0, "C10.2 the token after an empty macro expansion keeps its own line-start status: a directive on the next line stays a directive, text on the same line does not become one");
#elif FN == 4
  // a '#' produced by macro expansion is never a directive (6.10.3.4p3), even at the start of a line
  MAC.is_objlike = 1; b1t.loc = "#"; b1t.kind = TK_PUNCT; b1t.next = &eof; b1t.hideset = 0;
  ASSUME(!member(a0, an0, a1, an1, 1));
  bool r = expand_macro(&rest, &inv);
  REACH("returns");
  OBLIGE(r && rest != &b1t && rest->len == 1 && rest->loc[0] == '#', "C09.2 the expansion is a copy of the replacement list");
  OBLIGE(!is_hash(rest), "C10.2 a '#' that results from macro replacement is not processed as a directive, wherever it stands");
#else
  MAC.is_objlike = 0;
  ASSUME(!member(a0, an0, a1, an1, 1));
  bool r = expand_macro(&rest, &inv);
  REACH("returns");
  OBLIGE(r == 0, "C09.2 a function-like macro name that is not followed by '(' is an ordinary identifier");
#endif
#endif
}
