// C09.4  # operator spelling (C11 6.10.3.2p2): the real preprocess.c join_tokens on a three-token argument whose tokens
// are separated by nothing, by blanks or by a NEW-LINE (symbolic has_space / at_bol flags): each white-space run
// between two tokens becomes exactly one space, nothing is inserted elsewhere, leading white space is dropped.
#include "verif.h"
#include "preprocess.c"
StringArray include_paths; char *base_file; bool opt_fpic; bool opt_fcommon;
bool file_exists(char *p) { return 0; }
_Bool nondet_bool_(void);
void harness(void) {
  static Token T[4]; static char *sp[3] = {"a", "+", "bc"};
  for (int i = 0; i < 3; i++) { T[i] = (Token){0}; T[i].kind = TK_IDENT; T[i].loc = sp[i]; T[i].len = (int)strlen(sp[i]); T[i].next = &T[i + 1]; T[i].has_space = nondet_bool_(); T[i].at_bol = nondet_bool_(); }
  T[3] = (Token){0}; T[3].kind = TK_EOF; T[3].next = &T[3];
  char *s = join_tokens(&T[0], 0);
  REACH("returns");
  char want[8]; int j = 0;
  want[j++] = 'a'; if (T[1].has_space || T[1].at_bol) want[j++] = ' ';
  want[j++] = '+'; if (T[2].has_space || T[2].at_bol) want[j++] = ' ';
  want[j++] = 'b'; want[j++] = 'c'; want[j] = 0;
  _Bool ok = 1; for (int i = 0; i <= j; i++) ok &= s[i] == want[i];
  OBLIGE(ok, "C09.4 stringizing separates two tokens by one space iff white space (blanks or a new-line) separated them in the argument");
}
