// C09.5  argument collection (C11 6.10.3p11): the real preprocess.c read_macro_arg_one on EVERY sequence of up to NA
// tokens over { ( ) , { } x } followed by the closing parenthesis: an argument ends at the first comma (unless the rest
// is being read for __VA_ARGS__) or closing parenthesis that is not inside nested PARENTHESES - braces and brackets do
// not nest for this purpose -, consists of exactly the tokens before it, and the terminator is not consumed.
// Sequences are concretised path by path (cbmc --paths lifo); K0 splits the first token over parallel jobs.
#include "verif.h"
#include "preprocess.c"
#ifndef NA
#define NA 4
#endif
StringArray include_paths; char *base_file; bool opt_fpic; bool opt_fcommon;
bool file_exists(char *p) { return 0; }
bool equal(Token *tok, char *op) { size_t n = strlen(op); return (size_t)tok->len == n && !memcmp(tok->loc, op, n); }
static Token T[NA + 3]; static File F;
static void mk(Token *t, TokenKind k, char *s) { *t = (Token){0}; t->kind = k; t->loc = s; t->len = (int)strlen(s); t->next = t + 1; t->file = &F; }
int nondet_int_(void); _Bool nondet_bool_(void);
static int pick6(void) { switch (nondet_int_()) { case 0: return 0; case 1: return 1; case 2: return 2; case 3: return 3; case 4: return 4; default: return 5; } }
void harness(void) {
  static char *sp[6] = {"(", ")", ",", "{", "}", "x"};
  int n; switch (nondet_int_()) { case 0: n = 0; break; case 1: n = 1; break; case 2: n = 2; break; case 3: n = 3; break; default: n = NA; }
  if (n > NA) n = NA;
  int K[NA + 1];
  for (int i = 0; i < NA; i++) {
    K[i] = 5;
    if (i >= n) continue;
#ifdef K0
    if (i == 0) { K[0] = K0; continue; }
#endif
    K[i] = pick6();
  }
  _Bool read_rest; switch (nondet_int_()) { case 0: read_rest = 0; break; default: read_rest = 1; }
  for (int i = 0; i < n; i++) mk(&T[i], K[i] == 5 ? TK_IDENT : TK_PUNCT, sp[K[i]]);
  mk(&T[n], TK_PUNCT, ")"); mk(&T[n + 1], TK_EOF, ""); T[n + 1].next = &T[n + 1];
  // specification: position of the terminator
  int level = 0, end = -1;
  for (int i = 0; i <= n && end < 0; i++) {
    int k = i < n ? K[i] : 1;
    if (level == 0 && (k == 1 || (k == 2 && !read_rest))) { end = i; break; }
    if (k == 0) level++; else if (k == 1) level--;
  }
  Token *rest = 0;
  MacroArg *a = read_macro_arg_one(&rest, &T[0], read_rest);
  REACH("returns");
  OBLIGE(end >= 0 && rest == &T[end], "C09.5 an argument ends at the first comma or ')' outside nested parentheses (braces do not nest); the terminator is not consumed");
  _Bool ok = 1; Token *p = a->tok;
  for (int i = 0; i < end && i < NA; i++) { ok &= p->kind != TK_EOF && p->loc == T[i].loc; if (p->kind != TK_EOF) p = p->next; }
  ok &= p->kind == TK_EOF;
  OBLIGE(ok, "C09.5 the argument is exactly the tokens before its terminator");
}
