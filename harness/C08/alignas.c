// C08.5  _Alignas in declaration specifiers: the real parse.c declspec on  `_Alignas ( T ) int x`  and
// `_Alignas ( N ) int x`:  the requested alignment is the ALIGNMENT of the named type (C11 6.7.5p6: _Alignas(type) is
// _Alignas(_Alignof(type))), for a type whose size and alignment are arbitrary and different, resp. the value N; the
// declared type is still int.  Stand-ins: is_typename (spelling table), typename (yields the prepared type), const_expr.
#include "verif.h"
#include "parse.c"
void *hashmap_get2(HashMap *m, char *k, int l) { return 0; }
static Token T[8]; static Type TT; static long NVAL;
bool equal(Token *tok, char *op) { size_t n = strlen(op); return (size_t)tok->len == n && !memcmp(tok->loc, op, n); }
Token *skip(Token *tok, char *op) { if (!equal(tok, op)) { ASSUME(0); } return tok->next; }
bool consume(Token **rest, Token *tok, char *str) { if (equal(tok, str)) { *rest = tok->next; return 1; } *rest = tok; return 0; }
bool stub_is_typename(Token *tok) { return equal(tok, "_Alignas") || equal(tok, "int") || equal(tok, "T"); }
Type *stub_typename(Token **rest, Token *tok) { *rest = tok->next; return &TT; }
int64_t stub_const_expr(Token **rest, Token *tok) { *rest = tok->next; return NVAL; }
static void mk(Token *t, TokenKind k, char *s) { *t = (Token){0}; t->kind = k; t->loc = s; t->len = (int)strlen(s); t->next = t + 1; }
int nondet_int_(void);
void harness(void) {
  static Scope sc; sc = (Scope){0}; scope = &sc;
  static Type TI; TI = (Type){TY_INT, 4, 4}; ty_int = &TI;
  int sz = nondet_int_(), al = nondet_int_(); ASSUME(1 <= al && al <= 64 && 1 <= sz && sz <= 4096 && sz != al);
  TT = (Type){TY_STRUCT, sz, al};
  NVAL = nondet_int_(); ASSUME(1 <= NVAL && NVAL <= 4096);
  mk(&T[0], TK_KEYWORD, "_Alignas"); mk(&T[1], TK_PUNCT, "(");
#if FORM == 0
  mk(&T[2], TK_IDENT, "T");
#else
  mk(&T[2], TK_NUM, "16");
#endif
  mk(&T[3], TK_PUNCT, ")"); mk(&T[4], TK_KEYWORD, "int"); mk(&T[5], TK_IDENT, "x"); mk(&T[6], TK_EOF, "");
  VarAttr attr = {0}; Token *rest = 0;
  Type *ty = declspec(&rest, &T[0], &attr);
  REACH("returns");
  OBLIGE(attr.align == (FORM == 0 ? al : (int)NVAL), "C08.5 _Alignas(type) requests the alignment of that type (not its size); _Alignas(N) requests N");
  OBLIGE(ty == ty_int && rest == &T[5], "C08.5 the alignment specifier does not change the declared type; the specifiers end before the declarator");
}
