// C08.3/.4  struct and union layout: real struct_decl / union_decl with struct_union_decl (the token-consuming part)
// replaced by a contract that hands back a prepared member list.  Member type sizes are concrete per job (they
// are divisors); bit-field flags, widths, named-ness, packed and the aligned() attribute value are symbolic.
// Bounded: 3 members.
#include "verif.h"
#include "parse.c"
#include "psabi_layout.h"
#ifndef S0
#define S0 4
#define S1 1
#define S2 8
#endif
#ifndef A1
#define A1 S1
#endif
Type TT; Member MM[3]; Type MT[3]; Token NAME;
static Type *struct_union_decl(Token **rest, Token *tok)
__CPROVER_assigns()
__CPROVER_ensures(__CPROVER_return_value == &TT);

void harness(void) {
  const int sz[3] = {S0, S1, S2};
  const int al[3] = {S0, A1, S2};
  SpecMem sm[3]; SpecPos sp[3];
  IN(int, n); ASSUME(1 <= n && n <= 3);
  IN(_Bool, packed); IN(int, attr_k); ASSUME(0 <= attr_k && attr_k <= 4);
  IN(_Bool, bf0); IN(_Bool, bf1); IN(_Bool, bf2); IN(int, w0); IN(int, w1); IN(int, w2); IN(_Bool, nm0); IN(_Bool, nm1); IN(_Bool, nm2);
  _Bool bf[3] = {bf0, bf1, bf2}; int w[3] = {w0, w1, w2}; _Bool nm[3] = {nm0, nm1, nm2};
  IN(int, cnt0); IN(int, cnt1); IN(int, cnt2); int cnt[3] = {cnt0, cnt1, cnt2}; int msz[3];   /* a non-bit-field member may be an array: size = count * element size */
  for (int i = 0; i < 3; i++) {
    ASSUME(0 <= w[i] && w[i] <= sz[i] * 8);
    ASSUME(nm[i] || bf[i]);                 /* only bit-fields can be unnamed here (anonymous aggregates: separate shape) */
    ASSUME(w[i] != 0 || !nm[i]);            /* a zero-width bit-field must be unnamed (C11 6.7.2.1p4) */
#ifdef NO_BITFIELDS
    ASSUME(!bf[i]);
#endif
    ASSUME(1 <= cnt[i] && cnt[i] <= 3);
    msz[i] = bf[i] ? sz[i] : sz[i] * cnt[i];
    MT[i] = (Type){TY_INT, msz[i], sz[i]};
    MM[i] = (Member){0};
    MM[i].ty = &MT[i]; MM[i].align = al[i]; MM[i].is_bitfield = bf[i]; MM[i].bit_width = bf[i] ? w[i] : 0;
    MM[i].name = nm[i] ? &NAME : 0; MM[i].idx = i;
    MM[i].next = (i + 1 < n) ? &MM[i + 1] : 0;
    sm[i] = (SpecMem){msz[i], al[i], bf[i], bf[i] ? w[i] : 0, nm[i]};
  }
  TT = (Type){0}; TT.kind = TY_STRUCT; TT.size = 0; TT.align = 1 << attr_k; TT.is_packed = packed; TT.members = &MM[0];
  Token *rest = 0; Token tok = {0};
  int walign;
#ifdef UNION
  ASSUME(!packed);
  int wsize = spec_union_layout(sm, n, 1 << attr_k, &walign);
  Type *t = union_decl(&rest, &tok);
  REACH("returns");
  OBLIGE(t == &TT && t->kind == TY_UNION, "C08.4 union_decl returns the union type");
  OBLIGE(t->size == wsize, "C08.4 union size is the largest member rounded up to the alignment");
  OBLIGE(t->align == walign, "C08.4 union alignment is the strictest member alignment (unnamed bit-fields excluded)");
  for (int i = 0; i < 3; i++) if (i < n) OBLIGE(MM[i].offset == 0, "C08.4 every union member is at offset 0");
#else
  int wsize = spec_struct_layout(sm, n, packed, 1 << attr_k, sp, &walign);
  Type *t = struct_decl(&rest, &tok);
  REACH("returns");
  OBLIGE(t == &TT && t->kind == TY_STRUCT, "C08.3 struct_decl returns the struct type");
  OBLIGE(t->size == wsize, "C08.3 struct size equals the psABI size");
  OBLIGE(t->align == walign, "C08.3 struct alignment equals the psABI alignment");
  for (int i = 0; i < 3; i++) if (i < n && !(bf[i] && w[i] == 0)) {
    OBLIGE(MM[i].offset == sp[i].offset, "C08.3 member byte offset equals the psABI offset");
    OBLIGE(!bf[i] || MM[i].bit_offset == sp[i].bit_offset, "C08.3 bit-field position within its unit equals the psABI position");
  }
  // property-level consequences, independent of the spec function: no two members share a bit, a bit-field never
  // straddles a unit of its declared type, non-packed members are aligned
  for (int i = 0; i < 3; i++) if (i < n && !(bf[i] && w[i] == 0)) {
    int lo_i = MM[i].offset * 8 + (bf[i] ? MM[i].bit_offset : 0), hi_i = lo_i + (bf[i] ? w[i] : msz[i] * 8);
    OBLIGE(hi_i <= t->size * 8, "C08.3 every member lies inside the struct");
    OBLIGE(!bf[i] || (MM[i].bit_offset >= 0 && MM[i].bit_offset + w[i] <= sz[i] * 8 && MM[i].offset % sz[i] == 0), "C08.3 a bit-field does not straddle its storage unit");
    OBLIGE(bf[i] || packed || MM[i].offset % al[i] == 0, "C08.3 a member is aligned to its alignment");
    for (int j = 0; j < i; j++) if (!(bf[j] && w[j] == 0)) {
      int lo_j = MM[j].offset * 8 + (bf[j] ? MM[j].bit_offset : 0), hi_j = lo_j + (bf[j] ? w[j] : msz[j] * 8);
      OBLIGE(hi_j <= lo_i, "C08.3 members are laid out in declaration order without overlap");
    }
  }
#endif
}
