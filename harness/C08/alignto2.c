// C08.2  align_to (real codegen.c)
#include "cg_harness.h"
void harness(void) {
  IN(int, n); ASSUME(0 <= n && n < (1 << 30));
  REACH("start");
  for (int k = 0; k <= 6; k++) {
    int a = 1 << k;
    int u = align_to(n, a);
    OBLIGE(u >= n && u - n < a && u % a == 0, "C08.2 align_to is the least multiple not below n");
  }
}
