from engine.core import Job
META = dict(
    level="proof",
    claim="Primitive sizes/alignments/signedness and the type constructors equal the psABI table (real initialisers); align_to/align_down are the least/greatest multiple for every power-of-two alignment <= 64 and n < 2^30; struct_decl and union_decl produce, for every combination of member kinds (plain, bit-field of any width incl. zero width, unnamed), packed and aligned() attribute, exactly the psABI 3.1.2 offsets, bit positions, size and alignment, and the layout is overlap-free and unit-respecting. Layout is bounded to 3 members per aggregate (reported as bounded); member type sizes are case-split (they are divisors).",
    note="Trusted: CBMC, spec/psabi_layout.h. The token-consuming struct_union_decl is replaced by a contract returning a prepared member list (assumed). struct_members builds member descriptors (type, index, name, bit-field width, alignment = _Alignas or the type's) on a concrete token shape with declspec/declarator/const_expr as stand-in stubs. Not covered: specifier decoding (declspec), declarators, offsetof macro, anonymous nested aggregates, flexible array members.",
    functions=["parse.c:declspec", "parse.c:struct_members", "parse.c:struct_decl", "parse.c:union_decl", "parse.c:align_down", "codegen.c:align_to", "type.c:pointer_to", "type.c:array_of", "type.c:enum_type", "type.c:copy_type", "type.c:func_type", "type.c:new_type"],
    trusted_base=["CBMC 6.11", "spec/psabi_layout.h (psABI 3.1.2 + GCC bit-field rules)"],
    assumptions=["struct_union_decl returns the aggregate type with its member list built (contract)"],
)
CUT = ["error", "error_tok", "error_at", "warn_tok", "verror_at"]
def jobs(tier):
    js = [Job(name="prim", src="prim.c", group="C08.1 primitive table", mode="plain", cut=CUT, units=["parse.c"], sample="ty_* initialisers, pointer_to/array_of/enum_type/copy_type/func_type"),
          Job(name="align_down", src="alignto.c", group="C08.2 rounding", mode="plain", cut=CUT, units=["type.c", "codegen.c"], unwind=9, sample="align_down(n, 2^k), k=0..6, all n < 2^30"),
          Job(name="align_to", src="alignto2.c", group="C08.2 rounding", mode="plain", cut=CUT, units=["type.c"], unwind=9, sample="align_to(n, 2^k), k=0..6, all n < 2^30")]
    sizes = (1, 2, 4, 8)
    combos = [(a, b, c) for a in sizes for b in sizes for c in sizes]
    quick = [(4, 1, 8), (1, 4, 2), (8, 2, 4), (2, 8, 1), (1, 1, 4), (4, 4, 4), (8, 1, 2), (2, 4, 8)]
    for (a, b, c) in combos:
        t = "quick" if (a, b, c) in quick else "thorough"
        for un in (0, 1):
            d = {"S0": str(a), "S1": str(b), "S2": str(c)}
            if un:
                d["UNION"] = ""
            js.append(Job(name=f"{'union' if un else 'struct'}-{a}-{b}-{c}", src="layout.c", group="C08.3/4 aggregate layout", defs=d, units=["type.c", "codegen.c"],
                          mode="legacy", replace=["struct_union_decl"], cut=CUT, unwind=5, tier=t, timeout=600, replay=None,
                          bounded="3 members per aggregate (member sizes case-split over {1,2,4,8}^3)",
                          sample=f"{'union' if un else 'struct'} of up to 3 members with type sizes {a},{b},{c}; bit-field flags/widths/named/packed/aligned symbolic"))
    js.append(Job(name="struct_members", src="members.c", group="C08.3 member descriptors", mode="plain", cut=CUT, units=["type.c", "codegen.c"],
                  redirect={"declspec": "stub_declspec", "declarator": "stub_declarator", "const_expr": "stub_const_expr"}, cbmc_flags=["--paths lifo"], unwind=20, timeout=600, replay=None,
                  bounded="one concrete token shape (4 members), member types/_Alignas/width symbolic", sample="struct_members on `T a; T b, c; T : w; }` with symbolic member types"))
    # over-aligned middle member (_Alignas(16))
    for (a, b, c) in [(1, 4, 1), (4, 8, 2)]:
        js.append(Job(name=f"struct-{a}-{b}-{c}-alignas16", src="layout.c", group="C08.3/4 aggregate layout", defs={"S0": str(a), "S1": str(b), "S2": str(c), "A1": "16", "NO_BITFIELDS": ""},
                      units=["type.c", "codegen.c"], mode="legacy", replace=["struct_union_decl"], cut=CUT, unwind=5, timeout=600, replay=None,
                      bounded="3 members per aggregate", sample=f"struct with an _Alignas(16) member, sizes {a},{b},{c}"))
    for f in (0, 1):
        js.append(Job(name=f"alignas-{'type' if f == 0 else 'value'}", src="alignas.c", group="C08.5 _Alignas", defs={"FORM": str(f)}, mode="plain", cut=["error", "error_tok", "error_at", "warn_tok", "verror_at"], units=["type.c"],
                      redirect={"is_typename": "stub_is_typename", "typename": "stub_typename", "const_expr": "stub_const_expr"}, unwind=12, unwindset=["strlen.0:24", "memcmp.0:24"], timeout=300, replay=None,
                      sample="declspec on _Alignas(" + ("T" if f == 0 else "N") + ") int x with an arbitrary type / value"))
    return js


def replay_hook(job, key, inputs):
    """render the aggregate of the counterexample as C and compare sizeof/_Alignof/member offsets between chibicc and gcc"""
    from engine import progreplay
    if not (job.name.startswith("struct") or job.name.startswith("union")):
        return None
    tn = {1: "char", 2: "short", 4: "int", 8: "long"}
    sz = [int(job.defs["S0"]), int(job.defs["S1"]), int(job.defs["S2"])]
    n = int(inputs.get("n", "3"))
    packed = inputs.get("packed", "0") == "1"
    ak = int(inputs.get("attr_k", "0"))
    mem, probes = [], []
    for i in range(n):
        bf = inputs.get(f"bf{i}", "0") == "1" and "NO_BITFIELDS" not in job.defs
        w = int(inputs.get(f"w{i}", "0"))
        nm = inputs.get(f"nm{i}", "1") == "1"
        al = " _Alignas(16)" if (i == 1 and job.defs.get("A1") == "16") else ""
        if bf:
            mem.append(f"{tn[sz[i]]} {('m%d' % i) if nm else ''}:{w};")
        else:
            mem.append(f"{al} {tn[sz[i]]} m{i};")
            probes.append(f'printf("m{i} %d\\n", (int)(long)&(((struct_t *)0)->m{i}));')
    kw = "union" if "UNION" in job.defs else "struct"
    attrs = []
    if packed:
        attrs.append("packed")
    if ak:
        attrs.append(f"aligned({1 << ak})")
    at = f"__attribute__(({','.join(attrs)}))" if attrs else ""
    src = ("int printf(const char *, ...);\n" + f"typedef {kw} {at} {{ {' '.join(mem)} }} struct_t;\n" +
           "int main(){ printf(\"size %d align %d\\n\", (int)sizeof(struct_t), (int)_Alignof(struct_t)); " + " ".join(probes) + " return 0; }\n")
    return progreplay.run_both(src, "aggregate of the counterexample")
