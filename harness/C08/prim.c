// C08.1  primitive type table and type constructors of the real type.c (real initialisers; plain harness)
#include "verif.h"
#include "type.c"
#define CHK(t, k, s, u) (t != 0 && t->kind == k && t->size == s && t->align == s && (t->is_unsigned != 0) == u)
void harness(void) {
  REACH("start");
  OBLIGE(CHK(ty_bool, TY_BOOL, 1, 0) && CHK(ty_char, TY_CHAR, 1, 0) && CHK(ty_uchar, TY_CHAR, 1, 1), "C08.1 _Bool/char/unsigned char are 1 byte");
  OBLIGE(CHK(ty_short, TY_SHORT, 2, 0) && CHK(ty_ushort, TY_SHORT, 2, 1), "C08.1 short is 2 bytes");
  OBLIGE(CHK(ty_int, TY_INT, 4, 0) && CHK(ty_uint, TY_INT, 4, 1), "C08.1 int is 4 bytes");
  OBLIGE(CHK(ty_long, TY_LONG, 8, 0) && CHK(ty_ulong, TY_LONG, 8, 1), "C08.1 long is 8 bytes");
  OBLIGE(CHK(ty_float, TY_FLOAT, 4, 0) && CHK(ty_double, TY_DOUBLE, 8, 0) && CHK(ty_ldouble, TY_LDOUBLE, 16, 0), "C08.1 float 4, double 8, long double 16/16");
  Type *p = pointer_to(ty_int);
  OBLIGE(p->kind == TY_PTR && p->size == 8 && p->align == 8 && p->base == ty_int && p->is_unsigned, "C08.1 pointers are 8/8 and compare unsigned");
  Type *e = enum_type();
  OBLIGE(e->kind == TY_ENUM && e->size == 4 && e->align == 4, "C08.1 enum is 4/4");
  IN(int, len); ASSUME(0 <= len && len <= 1 << 20);
  IN(int, which); ASSUME(0 <= which && which <= 3);
  Type *b = which == 0 ? ty_char : which == 1 ? ty_short : which == 2 ? ty_int : ty_long;
  Type *a = array_of(b, len);
  OBLIGE(a->kind == TY_ARRAY && a->size == b->size * len && a->align == b->align && a->base == b && a->array_len == len, "C08.1 array_of: n elements, element alignment");
  Type *c = copy_type(ty_int);
  OBLIGE(c != ty_int && c->kind == TY_INT && c->size == 4 && c->origin == ty_int, "C08.1 copy_type copies and records the origin");
  Type *f = func_type(ty_int);
  OBLIGE(f->kind == TY_FUNC && f->return_ty == ty_int, "C08.1 func_type");
}
VERIF_MAIN
