// C08.3  member descriptors: real parse.c struct_members on the concrete token shape
//     T a ; T b , c ; T : w ; }            (two declarations, one with two declarators, one unnamed bit-field)
// with declspec / declarator / const_expr as stand-in stubs that yield symbolic member types and an _Alignas value.
// Each Member must carry its declared type, index, name, bit-field width, and the alignment `_Alignas ? _Alignas :
// type alignment` -- nothing else may influence the alignment (psABI 3.1.2: a member is aligned like its type).
#include "verif.h"
#include "parse.c"
#define NT 16
Token T[NT]; Type MT[4]; Token NM[4]; int g_decl, g_spec; int g_alignas[3]; long g_width;
bool equal(Token *tok, char *op) { int i = (int)(tok - T); return i >= 0 && i < NT && T[i].loc != 0 && !strcmp(T[i].loc, op); }
Token *skip(Token *tok, char *op) { if (!equal(tok, op)) { ASSUME(0); } return tok->next; }
bool consume(Token **rest, Token *tok, char *str) { if (equal(tok, str)) { *rest = tok->next; return 1; } *rest = tok; return 0; }
Type BASE;
Type *stub_declspec(Token **rest, Token *tok, VarAttr *attr) { attr->align = g_alignas[g_spec < 3 ? g_spec : 2]; g_spec++; *rest = tok->next; return &BASE; }
Type *stub_declarator(Token **rest, Token *tok, Type *ty) {   /* consumes the declarator's name token if there is one */
  int k = g_decl < 4 ? g_decl : 3; g_decl++;
  if (equal(tok, ":")) { *rest = tok; MT[k].name = 0; return &MT[k]; }
  *rest = tok->next; MT[k].name = &NM[k]; return &MT[k];
}
int64_t stub_const_expr(Token **rest, Token *tok) { *rest = tok->next; return g_width; }
int nondet_int_(void); _Bool nondet_bool_(void);
void harness(void) {
  static char *txt[NT] = {"T", "a", ";", "T", "b", ",", "c", ";", "T", ":", "w", ";", "}", ";", ";", ";"};
  for (int i = 0; i < NT; i++) { T[i] = (Token){0}; T[i].loc = txt[i]; T[i].len = (int)strlen(txt[i]); T[i].kind = TK_IDENT; T[i].next = i + 1 < NT ? &T[i + 1] : &T[i]; }
  for (int k = 0; k < 4; k++) {
    _Bool arr = nondet_bool_(); int al = 1 << (nondet_int_() & 3); int cnt = nondet_int_(); ASSUME(1 <= cnt && cnt <= 64);
    MT[k] = (Type){arr ? TY_ARRAY : TY_INT, al * cnt, al}; if (arr) { MT[k].array_len = cnt; MT[k].base = &BASE; }
  }
  BASE = (Type){TY_INT, 4, 4};
  for (int i = 0; i < 3; i++) { int a = nondet_int_(); ASSUME(a == 0 || a == 1 || a == 2 || a == 4 || a == 8 || a == 16 || a == 32); g_alignas[i] = a; }
  g_width = nondet_int_(); ASSUME(0 <= g_width && g_width <= 32);
  g_decl = 0; g_spec = 0;
  Type ST = {TY_STRUCT, 0, 1}; Token *rest = 0;
  struct_members(&rest, &T[0], &ST);
  REACH("returns");
  Member *m0 = ST.members, *m1 = m0 ? m0->next : 0, *m2 = m1 ? m1->next : 0, *m3 = m2 ? m2->next : 0;
  OBLIGE(m0 && m1 && m2 && m3 && !m3->next, "C08.3 one member per declarator, in declaration order");
  OBLIGE(m0->ty == &MT[0] && m1->ty == &MT[1] && m2->ty == &MT[2] && m3->ty == &MT[3] && m0->idx == 0 && m1->idx == 1 && m2->idx == 2 && m3->idx == 3, "C08.3 every member has its declared type and position");
  OBLIGE(m0->align == (g_alignas[0] ? g_alignas[0] : MT[0].align), "C08.3 first member: alignment is _Alignas if given, else the alignment of its type");
  OBLIGE(m1->align == (g_alignas[1] ? g_alignas[1] : MT[1].align) && m2->align == (g_alignas[1] ? g_alignas[1] : MT[2].align), "C08.3 declarators of one declaration share its _Alignas; otherwise each is aligned like its own type");
  OBLIGE(m3->is_bitfield && m3->bit_width == g_width && m3->name == 0 && !m0->is_bitfield && !m1->is_bitfield && !m2->is_bitfield, "C08.3 ':' introduces a bit-field of the given width; an omitted declarator gives an unnamed member");
  OBLIGE(rest == &T[13], "C08.3 the member list is consumed up to and including '}'");
}
