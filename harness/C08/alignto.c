// C08.2  align_to / align_down (real codegen.c / parse.c) for every power-of-two alignment 1..64 and every 0 <= n < 2^30
#include "verif.h"
#include "parse.c"
void harness(void) {
  IN(int, n); ASSUME(0 <= n && n < (1 << 30));
  REACH("start");
  for (int k = 0; k <= 6; k++) {
    int a = 1 << k;
    int d = align_down(n, a);
    OBLIGE(d <= n && n - d < a && d % a == 0, "C08.2 align_down is the greatest multiple not above n");
  }
}
