// C15.4  tentative-definition merging: the real parse.c scan_globals on EVERY list of NG file-scope objects over two
// names with symbolic flags (a tentative definition is a definition: global_variable sets is_tentative only when the
// declaration is not extern).  C11 6.9.2: the tentative definitions of a name collapse into ONE definition; they are
// all redundant only if the name also has a non-tentative definition.  Everything that is not a tentative definition
// (declarations, initialised definitions, functions) is kept, in order.
#include "verif.h"
#include "parse.c"
#ifndef NG
#define NG 3
#endif
_Bool nondet_bool_(void);
void harness(void) {
  static Obj G[NG]; static char NX[] = "x", NY[] = "y"; static Type T;
  _Bool isx[NG];
  for (int i = 0; i < NG; i++) {
    G[i] = (Obj){0}; isx[i] = nondet_bool_(); G[i].name = isx[i] ? NX : NY; G[i].ty = &T;
    G[i].is_definition = nondet_bool_(); G[i].is_tentative = nondet_bool_();
    ASSUME(!G[i].is_tentative || G[i].is_definition);
    G[i].next = i + 1 < NG ? &G[i + 1] : 0;
  }
  globals = &G[0];
  scan_globals();
  REACH("returns");
  // which objects survive
  _Bool kept[NG]; for (int i = 0; i < NG; i++) kept[i] = 0;
  _Bool shape = 1; int last = -1;
  for (Obj *o = globals; o; o = o->next) {
    int k = (int)(o - G);
    if (k < 0 || k >= NG || k <= last) { shape = 0; break; }
    kept[k] = 1; last = k;
  }
  OBLIGE(shape, "C15.4 the result is a sub-list of the declarations in their order");
  _Bool ok_nt = 1, ok_one = 1, ok_red = 1;
  for (int i = 0; i < NG; i++) if (!G[i].is_tentative) ok_nt &= kept[i];
  for (int nm = 0; nm < 2; nm++) {
    int tent = 0, tent_kept = 0; _Bool real = 0;
    for (int i = 0; i < NG; i++) if (isx[i] == (nm == 0)) { if (G[i].is_tentative) { tent++; tent_kept += kept[i]; } else if (G[i].is_definition) real = 1; }
    if (real) ok_red &= tent_kept == 0;
    else if (tent > 0) ok_one &= tent_kept == 1;
  }
  OBLIGE(ok_nt, "C15.4 everything that is not a tentative definition is kept");
  OBLIGE(ok_red, "C15.4 tentative definitions of a name that has a real definition are dropped");
  OBLIGE(ok_one, "C15.4 a name with only tentative definitions keeps exactly one definition");
}
