// C15.3  liveness closure: real parse.c mark_live under a recursive contract.  find_func is a ghost map over a pool of
// three functions; the reference list of the function under proof has up to 2 names.  Postcondition: the function is
// live and every resolvable reference is live; already-live functions stay live (termination on cycles: an already
// live function returns immediately).
#include "verif.h"
#include "parse.c"
Obj P[3]; char *NM[3];
static int nidx(char *name) { return name == NM[0] ? 0 : name == NM[1] ? 1 : name == NM[2] ? 2 : -1; }
_Bool G_exists[3];
static Obj *find_func(char *name)
__CPROVER_assigns()
__CPROVER_ensures(__CPROVER_return_value == (nidx(name) >= 0 && G_exists[nidx(name)] ? &P[nidx(name)] : (Obj *)0));
static void mark_live(Obj *var)
__CPROVER_requires(var == &P[0] || var == &P[1] || var == &P[2])
__CPROVER_assigns(P[0].is_live, P[1].is_live, P[2].is_live)
__CPROVER_ensures(!var->is_function || var->is_live)
__CPROVER_ensures((!__CPROVER_old(P[0].is_live) || P[0].is_live) && (!__CPROVER_old(P[1].is_live) || P[1].is_live) && (!__CPROVER_old(P[2].is_live) || P[2].is_live))
;
int nondet_int_(void); _Bool nondet_bool_(void);
void harness(void) {
  static char n0[] = "f", n1[] = "g", n2[] = "h"; static char *refs[2];
  NM[0] = n0; NM[1] = n1; NM[2] = n2;
  for (int i = 0; i < 3; i++) { P[i] = (Obj){0}; P[i].name = NM[i]; P[i].is_function = nondet_bool_(); P[i].is_live = nondet_bool_(); G_exists[i] = nondet_bool_(); }
  int r0 = nondet_int_(), r1 = nondet_int_(), n = nondet_int_(); ASSUME(0 <= r0 && r0 < 3 && 0 <= r1 && r1 < 3 && 0 <= n && n <= 2);
  refs[0] = NM[r0]; refs[1] = NM[r1];
  P[0].refs.data = refs; P[0].refs.len = n; P[0].refs.capacity = 2;
  ASSUME(P[0].is_function && !P[0].is_live);
  _Bool l1 = P[1].is_live, l2 = P[2].is_live;
  (void)nidx(0);
  mark_live(&P[0]);
  REACH("returns");
  OBLIGE(P[0].is_live, "C15.3 the function itself becomes live");
  OBLIGE(n < 1 || !G_exists[r0] || !P[r0].is_function || P[r0].is_live, "C15.3 the first referenced function is live afterwards");
  OBLIGE(n < 2 || !G_exists[r1] || !P[r1].is_function || P[r1].is_live, "C15.3 the second referenced function is live afterwards");
  OBLIGE((!l1 || P[1].is_live) && (!l2 || P[2].is_live), "C15.3 liveness is never taken away");
}
