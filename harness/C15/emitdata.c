// C15.6  data emission: real codegen.c emit_data for ONE arbitrary global (the loop body is independent per list
// element): binding, section kind, size, alignment, common symbols, data bytes and relocations, against the table of
// C11 linkage rules / -fcommon semantics.  Plain harness; object size bounded to SZMAX bytes.
#include "verif.h"
#include "dirlog.h"
#include "codegen.c"
#undef println
bool opt_fpic; bool opt_fcommon;
File **get_input_files(void) { static File *none[1]; return none; }
#define SZMAX 10
int nondet_int_(void); _Bool nondet_bool_(void); unsigned char nondet_uchar_(void);
void harness(void) {
  Obj v = {0}; Type t = {0}; static char data[SZMAX + 8]; Relocation rel = {0}; char *lab = "target";
  IN(int, size); IN(int, valign); IN(_Bool, is_array);
  ASSUME(1 <= size && size <= SZMAX && (valign == 1 || valign == 2 || valign == 4 || valign == 8 || valign == 32));
  t.kind = is_array ? TY_ARRAY : TY_STRUCT; t.size = is_array ? size + 8 : size; t.align = 1;   /* arrays: 9..18 bytes so that the >= 16 rule is exercised */
  int osize = t.size;
  v.name = "sym"; v.ty = &t; v.align = valign;
  v.is_function = nondet_bool_(); v.is_definition = nondet_bool_(); v.is_static = nondet_bool_(); v.is_tentative = nondet_bool_(); v.is_tls = nondet_bool_();
  _Bool has_init = nondet_bool_(), has_rel = nondet_bool_();
  for (int i = 0; i < SZMAX + 8; i++) data[i] = (char)nondet_uchar_();
  v.init_data = has_init ? &data[0] : (char *)0;
  IN(int, roff); ASSUME(0 <= roff && roff + 8 <= osize);
  rel.offset = roff; rel.label = &lab; rel.addend = nondet_int_(); rel.next = 0;
  v.rel = (has_init && has_rel && osize >= 8) ? &rel : 0;
  opt_fcommon = nondet_bool_();
  v.next = 0; dl_n = 0;
  emit_data(&v);
  REACH("returns");
  int want_align = (is_array && osize >= 16) ? (valign > 16 ? valign : 16) : valign;
  if (v.is_function || !v.is_definition) { OBLIGE(dl_n == 0, "C15.6 nothing is emitted for functions and for declarations that are not definitions"); return; }
  OBLIGE(dl_n >= 1 && dl_is(0, v.is_static ? "  .local %s" : "  .globl %s") && dl[0].s0 == v.name, "C15.6 internal linkage => .local, external linkage => .globl, for the object's own name");
  if (opt_fcommon && v.is_tentative) {
    OBLIGE(dl_n == 2 && dl_is(1, "  .comm %s, %d, %d") && dl[1].s0 == v.name && dl[1].i1 == osize && dl[1].i2 == want_align, "C15.6 a tentative definition under -fcommon is a common symbol of the object's size and alignment, and nothing else");
    return;
  }
  if (has_init) {
    OBLIGE(dl_is(1, v.is_tls ? "  .section .tdata,\"awT\",@progbits" : "  .data"), "C15.6 initialised objects go to .data (thread-local: .tdata)");
    OBLIGE(dl_is(2, "  .type %s, @object") && dl_is(3, "  .size %s, %d") && dl[3].i1 == osize && dl_is(4, "  .align %d") && dl[4].i0 == want_align && dl_is(5, "%s:") && dl[5].s0 == v.name,
           "C15.6 object type, size, alignment (16 for arrays of 16 bytes or more) and label");
    // contents: bytes in order, an 8-byte relocation at its offset
    int k = 6, pos = 0; _Bool ok = 1;
    for (int step = 0; step < SZMAX + 8; step++) {
      if (pos >= osize) break;
      if (v.rel && pos == roff) { ok = ok && dl_is(k, "  .quad %s%+ld") && dl[k].s0 == lab && dl[k].i1 == rel.addend; pos += 8; }
      else { ok = ok && dl_is(k, "  .byte %d") && dl[k].i0 == data[pos]; pos++; }
      k++;
    }
    OBLIGE(ok && k == dl_n && pos == osize, "C15.6 the object image is emitted byte for byte, address constants as label+addend relocations, exactly size bytes");
  } else {
    OBLIGE(dl_is(1, v.is_tls ? "  .section .tbss,\"awT\",@nobits" : "  .bss"), "C15.6 uninitialised objects go to .bss (thread-local: .tbss)");
    OBLIGE(dl_n == 5 && dl_is(2, "  .align %d") && dl[2].i0 == want_align && dl_is(3, "%s:") && dl[3].s0 == v.name && dl_is(4, "  .zero %d") && dl[4].i0 == osize, "C15.6 alignment, label and size bytes of zero fill");
  }
}
