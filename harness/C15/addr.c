// C15.7  address formation: real gen_addr(ND_VAR) over (local, VLA, thread-local, -fPIC, function, definition):
// the instruction form emitted equals the table (rbp-relative / RIP-relative / GOT / TLS local-exec / TLS general-dynamic).
// Conformance check: the meaning of the relocations is the linker's.
#include "verif.h"
#include "dirlog.h"
#include "codegen.c"
#undef println
bool opt_fpic; bool opt_fcommon;
File **get_input_files(void) { static File *none[1]; return none; }
_Bool nondet_bool_(void); int nondet_int_(void);
void harness(void) {
  Obj v = {0}; Type t = {0}; Node n = {0}; Token tok = {0};
  t.kind = nondet_bool_() ? TY_VLA : (nondet_bool_() ? TY_FUNC : TY_INT); t.size = 4;
  v.name = "sym"; v.ty = &t; v.offset = nondet_int_();
  v.is_local = nondet_bool_(); v.is_tls = nondet_bool_(); v.is_definition = nondet_bool_(); v.is_static = nondet_bool_(); v.is_function = t.kind == TY_FUNC;
  opt_fpic = nondet_bool_();
  ASSUME(t.kind != TY_VLA || v.is_local);          /* VLAs are always local */
  n.kind = ND_VAR; n.var = &v; n.ty = &t; n.tok = &tok; dl_n = 0;
  gen_addr(&n);
  REACH("returns");
  if (t.kind == TY_VLA) OBLIGE(dl_n == 1 && dl_is(0, "  mov %d(%%rbp), %%rax") && dl[0].i0 == v.offset, "C15.7 a VLA's address is loaded from its hidden pointer slot");
  else if (v.is_local) OBLIGE(dl_n == 1 && dl_is(0, "  lea %d(%%rbp), %%rax") && dl[0].i0 == v.offset, "C15.7 a local object is rbp-relative");
  else if (opt_fpic && v.is_tls) OBLIGE(dl_n == 4 && dl_is(0, "  data16 lea %s@tlsgd(%%rip), %%rdi") && dl_is(3, "  call __tls_get_addr@PLT") && dl[0].s0 == v.name, "C15.7 -fPIC thread-local: general-dynamic TLS sequence");
  else if (opt_fpic) OBLIGE(dl_n == 1 && dl_is(0, "  mov %s@GOTPCREL(%%rip), %%rax") && dl[0].s0 == v.name, "C15.7 -fPIC global or function: through the GOT");
  else if (v.is_tls) OBLIGE(dl_n == 2 && dl_is(0, "  mov %%fs:0, %%rax") && dl_is(1, "  add $%s@tpoff, %%rax") && dl[1].s0 == v.name, "C15.7 non-PIC thread-local: local-exec TLS");
  else if (t.kind == TY_FUNC && !v.is_definition) OBLIGE(dl_n == 1 && dl_is(0, "  mov %s@GOTPCREL(%%rip), %%rax") && dl[0].s0 == v.name, "C15.7 non-PIC reference to a function defined elsewhere: through the GOT");
  else OBLIGE(dl_n == 1 && dl_is(0, "  lea %s(%%rip), %%rax") && dl[0].s0 == v.name, "C15.7 non-PIC global: RIP-relative");
}
