from engine.core import Job
META = dict(
    level="proof",
    claim="Symbol emission mechanisms on the real code: emit_data emits for one arbitrary global exactly the directives the linkage rules prescribe (nothing for non-definitions; .local/.globl by linkage; .comm for tentative definitions under -fcommon; .data/.tdata vs .bss/.tbss; size, alignment incl. the 16-byte array rule; the image byte for byte with label+addend relocations); gen_addr(ND_VAR) emits the address form of the configuration table for every combination of local/VLA/TLS/-fPIC/function/definition; mark_live makes a function and every resolvable referenced function live and never revokes liveness (recursive contract; the closure over the whole reference graph is the induction).",
    note="Trusted: CBMC; the meaning of relocations/sections is the assembler's and linker's. Assumed: find_func is a ghost map. primary() records a reference (inside a function) or a root (file scope) for EVERY function designator whatever its flags so far; function() on a first prototype sets internal linkage iff static or (inline and not extern) and makes every function except a static inline one a root. Not covered: function redeclarations and definitions (bodies), global_variable() attribute parsing, scan_globals tentative merging, emit_text gate, the root loop in parse(), driver options, multi-unit link behaviour.",
    functions=["parse.c:primary", "parse.c:function", "parse.c:find_func", "parse.c:new_gvar", "codegen.c:emit_data", "codegen.c:gen_addr", "parse.c:mark_live"],
    trusted_base=["CBMC 6.11", "spec tables in harness/C15"],
    assumptions=["find_func(name) is a pure map (contract)", "one arbitrary list element stands for every element of the globals list (the loop body is element-wise)"],
)
CUT = ["error", "error_tok", "error_at", "warn_tok", "verror_at"]
def jobs(tier):
    return [
        Job(name="emit_data", src="emitdata.c", group="C15.6 data emission", mode="plain", cut=CUT, units=["type.c"], unwind=24, unwindset=["strcmp.0:40"], timeout=600, replay=None,
            sample="emit_data on one global with symbolic flags, size <= 18, symbolic image and relocation"),
        Job(name="gen_addr-var", src="addr.c", group="C15.7 address formation", mode="plain", cut=CUT, units=["type.c"], unwind=6, unwindset=["strcmp.0:40"], timeout=300, replay=None,
            sample="gen_addr(ND_VAR) over every configuration"),
        Job(name="refs-primary", src="refs.c", group="C15.1 reference recording", defs={"FN": "0"}, mode="plain", cut=CUT, units=["type.c"], unwind=12, unwindset=["strlen.0:48", "memcmp.0:48", "strcmp.0:48"], timeout=300, replay=None,
            sample="primary() on a function designator with symbolic linkage flags, inside a function and at file scope"),
        Job(name="function-attrs", src="refs.c", group="C15.2 linkage attributes", defs={"FN": "1"}, mode="plain", cut=CUT, units=["type.c"], unwind=12, unwindset=["strlen.0:48", "memcmp.0:48", "strcmp.0:48"], timeout=300, replay=None,
            redirect={"declarator": "stub_declarator"}, sample="function() on a first prototype with every static/inline/extern combination"),
        Job(name="function-redecl", src="refs.c", group="C15.2 linkage attributes", defs={"FN": "2"}, mode="plain", cut=CUT, units=["type.c"], unwind=12, unwindset=["strlen.0:48", "memcmp.0:48", "strcmp.0:48"], timeout=300, replay=None,
            redirect={"declarator": "stub_declarator"}, sample="function() redeclaring a function with every flag combination"),
        Job(name="function-def-scope", src="refs.c", group="C15.1 reference recording", defs={"FN": "3"}, mode="plain", cut=CUT, units=["type.c"], unwind=12, unwindset=["strlen.0:48", "memcmp.0:48", "strcmp.0:48"], timeout=300, replay=None,
            redirect={"declarator": "stub_declarator", "compound_stmt": "stub_compound_stmt"}, sample="function() on a definition with an (abstract) body"),
        Job(name="scan_globals", src="scan.c", group="C15.4 tentative definitions", defs={"NG": "3"}, mode="plain", cut=CUT, units=["type.c", "strings.c"], unwind=6, unwindset=["strcmp.0:4"], timeout=300, replay=None,
            bounded="3 file-scope objects over 2 names", sample="scan_globals on every list of 3 objects with symbolic names and flags"),
        Job(name="mark_live", src="marklive.c", group="C15.3 liveness closure", mode="dfcc", enforce="mark_live", rec=True, replace=["find_func"], cut=CUT, units=["type.c"], timeout=300, unwind=4, replay=None,
            sample="mark_live on a function with 0..2 references into a pool of three functions"),
    ]
