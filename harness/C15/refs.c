// C15.1/.2  root/reference recording and function linkage attributes on the real parse.c:
//  FN 0  primary() on an identifier that designates a function with ARBITRARY flags (a prototype seen so far may later
//        become a static inline definition, so the reference must be recorded whatever the flags are now): inside a
//        function the callee's name is appended to the current function's reference list, at file scope the function
//        becomes a root; the node designates the function; exactly the identifier is consumed.
//  FN 2  function() redeclaring a function: root status is never revoked.   FN 3  function() on a definition: file scope is
//        re-entered afterwards (current_fn reset).
//  FN 1  function() on a first declaration "f();" with every attribute combination: internal linkage iff static or
//        (inline and not extern); a function is a root (always emitted) unless it is static inline; not a definition.
// Ghost: hashmap_get2/hashmap_put (one-name dictionaries; dictionary semantics are C17's obligation); stand-in stub:
// declarator (yields the prepared function type and consumes the declarator tokens).
#include "verif.h"
#include "parse.c"
static char NF[] = "f";
static VarScope VSF; static _Bool bound; static Scope FILESC, BLK;
static VarScope *put_slot;
void *hashmap_get2(HashMap *map, char *key, int keylen) { return (bound && keylen == 1 && key[0] == 'f' && (map == &FILESC.vars)) ? (void *)&VSF : (void *)0; }
void *hashmap_get(HashMap *map, char *key) { return hashmap_get2(map, key, (int)strlen(key)); }
void hashmap_put(HashMap *map, char *key, void *val) { if (map == &FILESC.vars && key[0] == 'f' && key[1] == 0) { put_slot = val; bound = 1; } }
char *strndup(const char *s, size_t n) { char *p = malloc(n + 1); for (size_t i = 0; i < n; i++) p[i] = s[i]; p[n] = 0; return p; }
char *format(char *fmt, ...) { static char nm[] = ".L..0"; return nm; }           /* unique-name generator: the name itself is irrelevant here */
void strarray_push(StringArray *arr, char *s) { if (!arr->data) { arr->data = calloc(8, sizeof(char *)); arr->capacity = 8; } ASSUME(arr->len < arr->capacity); arr->data[arr->len++] = s; }
bool equal(Token *tok, char *op) { size_t n = strlen(op); return (size_t)tok->len == n && !memcmp(tok->loc, op, n); }
Token *skip(Token *tok, char *op) { if (!equal(tok, op)) { ASSUME(0); } return tok->next; }
bool consume(Token **rest, Token *tok, char *str) { if (equal(tok, str)) { *rest = tok->next; return 1; } *rest = tok; return 0; }
static Token T[6]; static Type FT; static Token NAME;
Type *stub_declarator(Token **rest, Token *tok, Type *ty) { *rest = &T[3]; return &FT; }
static Node BODY;
Node *stub_compound_stmt(Token **rest, Token *tok) { BODY = (Node){0}; BODY.kind = ND_BLOCK; *rest = &T[5]; return &BODY; }   /* '{' already skipped by the caller: consumes '}' */
static void mk(Token *t, TokenKind k, char *s) { *t = (Token){0}; t->kind = k; t->loc = s; t->len = (int)strlen(s); t->next = t + 1; }
_Bool nondet_bool_(void);
void harness(void) {
  FILESC = (Scope){0}; BLK = (Scope){0}; BLK.next = &FILESC;
  ty_int = &(Type){TY_INT, 4, 4};
#if FN == 0
  static Obj F, CALLER; static char *rdata[4];
  F = (Obj){0}; F.name = NF; F.is_function = 1; F.is_static = nondet_bool_(); F.is_inline = nondet_bool_(); F.is_definition = nondet_bool_(); F.is_root = nondet_bool_();
  static Type FTY; FTY = (Type){TY_FUNC, 1, 1}; FTY.return_ty = ty_int; F.ty = &FTY;
  VSF = (VarScope){0}; VSF.var = &F; bound = 1;
  CALLER = (Obj){0}; CALLER.name = "caller"; CALLER.is_function = 1; CALLER.refs.data = rdata; CALLER.refs.len = 0; CALLER.refs.capacity = 4;
  _Bool inside = nondet_bool_(); _Bool root0 = F.is_root;
  current_fn = inside ? &CALLER : (Obj *)0; scope = inside ? &BLK : &FILESC;
  mk(&T[0], TK_IDENT, "f"); mk(&T[1], TK_PUNCT, ";");
  Token *rest = 0;
  Node *n = primary(&rest, &T[0]);
  REACH("returns");
  OBLIGE(!inside || (CALLER.refs.len == 1 && CALLER.refs.data[0] == F.name), "C15.1 a function named inside a function body is recorded as referenced by that function, whatever its linkage attributes are so far");
  OBLIGE(inside || F.is_root, "C15.1 a function named at file scope (an initializer) becomes a root");
  OBLIGE(!inside || F.is_root == root0, "C15.1 naming a function inside a body does not change its root status");
  OBLIGE(n->kind == ND_VAR && n->var == &F && rest == &T[1], "C15.1 the identifier designates the function and exactly it is consumed");
#elif FN == 2
  // redeclaration by a prototype: the root status a use at file scope gave the function is never revoked
  static Obj F; static Type FTY;
  F = (Obj){0}; F.name = NF; F.is_function = 1; F.is_static = nondet_bool_(); F.is_inline = nondet_bool_(); F.is_definition = nondet_bool_(); F.is_root = nondet_bool_();
  FTY = (Type){TY_FUNC, 1, 1}; FTY.return_ty = ty_int; F.ty = &FTY;
  ASSUME(F.is_root || (F.is_static && F.is_inline));       /* reachable states: function() made it a root unless static inline */
  VSF = (VarScope){0}; VSF.var = &F; bound = 1;
  VarAttr attr = {0}; attr.is_static = nondet_bool_(); attr.is_inline = nondet_bool_(); attr.is_extern = nondet_bool_();
  ASSUME(F.is_static || !attr.is_static);                  /* 'static follows non-static' is a diagnosed error */
  mk(&T[0], TK_IDENT, "f"); mk(&T[1], TK_PUNCT, "("); mk(&T[2], TK_PUNCT, ")"); mk(&T[3], TK_PUNCT, ";"); mk(&T[4], TK_EOF, "");
  FT = (Type){TY_FUNC, 1, 1}; FT.return_ty = ty_int; FT.name = &T[0]; FT.name_pos = &T[0];
  _Bool root0 = F.is_root, static0 = F.is_static, inline0 = F.is_inline; scope = &FILESC; globals = &F; current_fn = 0;
  Token *r = function(&T[0], ty_int, &attr);
  REACH("returns");
  OBLIGE(!(static0 && (attr.is_static || !inline0)) || F.is_static, "C15.2 a function declared static keeps internal linkage when it is declared again (C11 6.2.2p4-5)");
  OBLIGE(!root0 || F.is_root, "C15.2 a redeclaration never revokes the root status of a function (e.g. one whose address initialises an object)");
  OBLIGE(F.is_root || (F.is_static && F.is_inline), "C15.2 every function except a static inline one is a root (emitted unconditionally)");
  OBLIGE(r == &T[4] && globals == &F, "C15.2 a redeclaration does not create a second object");
#elif FN == 3
  // a definition: once the body has been read, later file-scope text is not attributed to this function
  VarAttr attr = {0}; attr.is_static = nondet_bool_(); attr.is_inline = nondet_bool_();
  mk(&T[0], TK_IDENT, "f"); mk(&T[1], TK_PUNCT, "("); mk(&T[2], TK_PUNCT, ")"); mk(&T[3], TK_PUNCT, "{"); mk(&T[4], TK_PUNCT, "}"); mk(&T[5], TK_EOF, "");
  FT = (Type){TY_FUNC, 1, 1}; FT.return_ty = ty_int; FT.name = &T[0]; FT.name_pos = &T[0];
  bound = 0; put_slot = 0; scope = &FILESC; globals = 0; current_fn = 0; ty_char = &(Type){TY_CHAR, 1, 1};
  Token *r = function(&T[0], ty_int, &attr);
  REACH("returns");
  OBLIGE(r == &T[5], "C15.2 a definition consumes its body");
  OBLIGE(current_fn == 0, "C15.1 after a function definition the parser is at file scope again: references in later initializers are roots, not references of that function");
  OBLIGE(scope == &FILESC, "C15.2 the function's block scope is left");
#else
  VarAttr attr = {0}; attr.is_static = nondet_bool_(); attr.is_inline = nondet_bool_(); attr.is_extern = nondet_bool_();
  mk(&T[0], TK_IDENT, "f"); mk(&T[1], TK_PUNCT, "("); mk(&T[2], TK_PUNCT, ")"); mk(&T[3], TK_PUNCT, ";"); mk(&T[4], TK_EOF, "");
  FT = (Type){TY_FUNC, 1, 1}; FT.return_ty = ty_int; FT.name = &T[0]; FT.name_pos = &T[0];
  bound = 0; put_slot = 0; scope = &FILESC; globals = 0; current_fn = 0;
  Token *r = function(&T[0], ty_int, &attr);
  REACH("returns");
  Obj *fn = put_slot ? put_slot->var : (Obj *)0;
  OBLIGE(fn != 0 && fn == globals && fn->is_function && fn->name[0] == 'f' && fn->name[1] == 0, "C15.2 the declaration enters the function into the file scope and the globals list");
  OBLIGE(fn == 0 || fn->is_static == (attr.is_static || (attr.is_inline && !attr.is_extern)), "C15.2 a function has internal linkage iff it is declared static, or inline without extern");
  OBLIGE(fn == 0 || fn->is_inline == attr.is_inline, "C15.2 the inline attribute is recorded");
  OBLIGE(fn == 0 || fn->is_root == !(fn->is_static && fn->is_inline), "C15.2 every function except a static inline one is a root (emitted unconditionally)");
  OBLIGE(fn == 0 || !fn->is_definition, "C15.2 a prototype is not a definition");
  OBLIGE(r == &T[4] && current_fn == 0, "C15.2 a prototype consumes its ';' and opens no function body");
#endif
}
