from engine.core import Job
META = dict(
    level="proof",
    claim="run_subprocess returns to the driver only when a child was really started and its wait status is 0 (any non-zero exit status or death by signal ends the driver with a failure exit; the child branch never returns into the driver); create_tmpfile hands out a path only after mkstemp succeeded and after registering it for removal; cleanup unlinks every registered temporary exactly once. Real main.c under assumed contracts of fork/execvp/wait/mkstemp/unlink/exit with every outcome nondeterministic.",
    note="Assumed: the OS calls behave as their stubs state (fork: -1/0/pid; execvp returns only on failure; wait writes the status only when it reaps the child; exit never returns). Not applicable within this family: interleavings of concurrent driver invocations, kernel-side uniqueness of mkstemp, file-system state after exit. cc1 opens the output file only after codegen returned and codegen writes to a memory buffer. main() on 'chibicc -c|-S|-o out a.c b.c' with run_subprocess/run_linker as recording stand-ins that may fail at any launch: launches are per input front end then assembler on exactly that file, linker last; every temporary comes from mkstemp and is registered before anything can fail; atexit(cleanup) precedes the first temporary (bounded: two inputs, three command shapes).",
    functions=["main.c:run_subprocess", "main.c:create_tmpfile", "main.c:cleanup", "main.c:cc1", "main.c:open_file", "main.c:must_tokenize_file", "main.c:append_tokens", "strings.c:strarray_push"],
    trusted_base=["CBMC 6.11", "OS interface stubs (assumed contracts)"],
    assumptions=["fork/execvp/wait/mkstemp/unlink/exit stubs", "sequential execution of one driver process"],
)
def jobs(tier):
    P = dict(mode="plain", cut=["error", "error_tok", "error_at", "verror_at", "warn_tok"], units=["strings.c"], timeout=300, replay=None, unwind=24)
    return [Job(name="run_subprocess", src="driver.c", group="C14.1 wait status", defs={"FN": "0"}, sample="run_subprocess under every fork/exec/wait outcome", **P),
            Job(name="create_tmpfile", src="driver.c", group="C14.2 temporaries", defs={"FN": "1"}, sample="create_tmpfile under every mkstemp outcome", **P),
            Job(name="cc1-order", src="cc1order.c", group="C14.3 output after codegen", defs={}, sample="cc1() with every front-end stage able to fail", **P),
            *[Job(name=f"pipeline-{['c', 'S', 'link'][m]}", src="pipeline.c", group="C14.4 per-input pipeline", defs={"MODE": str(m)}, redirect={"run_subprocess": "stub_run_subprocess", "run_linker": "stub_run_linker"},
                  cbmc_flags=["--paths lifo"], bounded="two inputs, one command shape per job, any launch may fail", sample="main() on 'chibicc " + ["-c", "-S", "-o out"][m] + " a.c b.c' with a failure possible at every launch", **dict(P, unwind=70)) for m in range(3)],
            Job(name="cleanup", src="driver.c", group="C14.2 temporaries", defs={"FN": "2"}, sample="cleanup over 0..3 registered temporaries", **P)]
