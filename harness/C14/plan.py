from engine.core import Job
META = dict(
    level="proof",
    claim="run_subprocess returns to the driver only when a child was really started and its wait status is 0 (any non-zero exit status or death by signal ends the driver with a failure exit; the child branch never returns into the driver); create_tmpfile hands out a path only after mkstemp succeeded and after registering it for removal; cleanup unlinks every registered temporary exactly once. Real main.c under assumed contracts of fork/execvp/wait/mkstemp/unlink/exit with every outcome nondeterministic.",
    note="Assumed: the OS calls behave as their stubs state (fork: -1/0/pid; execvp returns only on failure; wait writes the status only when it reaps the child; exit never returns). Not applicable within this family: interleavings of concurrent driver invocations, kernel-side uniqueness of mkstemp, file-system state after exit. Not covered: per-input pipeline ordering in main(), write-after-codegen ordering in cc1.",
    functions=["main.c:run_subprocess", "main.c:create_tmpfile", "main.c:cleanup", "strings.c:strarray_push"],
    trusted_base=["CBMC 6.11", "OS interface stubs (assumed contracts)"],
    assumptions=["fork/execvp/wait/mkstemp/unlink/exit stubs", "sequential execution of one driver process"],
)
def jobs(tier):
    P = dict(mode="plain", cut=["error", "error_tok", "error_at", "verror_at", "warn_tok"], units=["strings.c"], timeout=300, replay=None, unwind=24)
    return [Job(name="run_subprocess", src="driver.c", group="C14.1 wait status", defs={"FN": "0"}, sample="run_subprocess under every fork/exec/wait outcome", **P),
            Job(name="create_tmpfile", src="driver.c", group="C14.2 temporaries", defs={"FN": "1"}, sample="create_tmpfile under every mkstemp outcome", **P),
            Job(name="cleanup", src="driver.c", group="C14.2 temporaries", defs={"FN": "2"}, sample="cleanup over 0..3 registered temporaries", **P)]
