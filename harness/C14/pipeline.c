// C14.4  per-input pipeline and temporaries at the level of main(): the real main.c main() (with the real parse_args,
// get_file_type, replace_extn, create_tmpfile, run_cc1, assemble) on the command  chibicc <MODE> a.c b.c  with
//   MODE 0: -c     MODE 1: -S     MODE 2: (link) -o out
// Sub-process launching (run_subprocess) and run_linker are stand-in stubs that record an event per launch and may FAIL at
// any launch (the driver then exits).  Obligations, at every exit of the driver (failure or success):
//   * every temporary path that was created was created by mkstemp (a name that is unique per invocation, which is what
//     keeps concurrent invocations apart) and is registered for removal at exit, and cleanup was registered with atexit
//     before the first temporary was made;
//   * the launches so far are a prefix of: for each input in order, front end (input -> its .s / temporary) and only
//     then the assembler (that temporary -> the object), and the linker last over the objects in input order;
//   * requested outputs are named after the inputs (a.o, b.o / a.s, b.s / out).
// This harness does not mention create_tmpfile's signature.
#include "verif.h"
#include "main.c"
#define NE 10
static struct { int kind; char *in, *out; } EV[NE]; static int nev;
static char *MK[8]; static int nmk; static _Bool atexit_ok, atexit_late, other_create;
int nondet_int_(void); _Bool nondet_bool_(void);
static _Bool streq(const char *a, const char *b) { return a && b && !strcmp(a, b); }
static _Bool from_mkstemp(char *p) { for (int i = 0; i < nmk && i < 8; i++) if (MK[i] == p) return 1; return 0; }
static _Bool registered(char *p) { for (int i = 0; i < tmpfiles.len; i++) if (tmpfiles.data[i] == p) return 1; return 0; }
static void at_exit_checks(_Bool success);
void exit(int code) { at_exit_checks(0); ASSUME(0); }
void _exit(int code) { ASSUME(0); }
int atexit(void (*fn)(void)) { if (fn == cleanup) { atexit_ok = 1; if (nmk > 0) atexit_late = 1; } return 0; }
void init_macros(void) { }
int mkstemp(char *tmpl) { if (nmk < 8) MK[nmk] = tmpl; nmk++; return 3; }
int close(int fd) { return 0; }
static FILE GF;
FILE *fopen(const char *path, const char *mode) { other_create = 1; return &GF; }     /* the driver itself creates no file by name */
int fclose(FILE *f) { return 0; }
int open(const char *path, int flags, ...) { other_create = 1; return 3; }
int fprintf(FILE *f, const char *fmt, ...) { return 0; }
char *strerror(int e) { return "err"; }
char *strdup(const char *s) { size_t n = strlen(s); char *p = malloc(n + 1); for (size_t i = 0; i <= n; i++) p[i] = s[i]; return p; }
char *basename(char *p) { char *b = p; for (char *q = p; *q; q++) if (*q == '/') b = q + 1; return b; }
char *format(char *fmt, ...) {        /* only %s is used by the code under proof */
  va_list ap; va_start(ap, fmt); char *buf = malloc(64); int j = 0;
  for (int i = 0; fmt[i] && j < 63; i++) {
    if (fmt[i] == '%' && fmt[i + 1] == 's') { char *a = va_arg(ap, char *); for (int k = 0; a[k] && j < 63; k++) buf[j++] = a[k]; i++; }
    else buf[j++] = fmt[i];
  }
  buf[j] = 0; va_end(ap); return buf;
}
void stub_run_subprocess(char **argv) {
  int k = nev < NE ? nev : NE - 1; nev++;
  if (streq(argv[0], "as")) { EV[k].kind = 1; EV[k].in = argv[2]; EV[k].out = argv[4]; }
  else { EV[k].kind = 0; EV[k].in = 0; EV[k].out = 0;
    for (int i = 1; argv[i] && i < 16; i++) { if (streq(argv[i], "-cc1-input")) EV[k].in = argv[i + 1]; if (streq(argv[i], "-cc1-output")) EV[k].out = argv[i + 1]; } }
  if (nondet_bool_()) exit(1);         /* this launch fails: non-zero status or death by signal (C14.1 is run_subprocess's own obligation) */
}
static char *LDIN[4]; static int nldin;
void stub_run_linker(StringArray *inputs, char *output) {
  int k = nev < NE ? nev : NE - 1; nev++; EV[k].kind = 2; EV[k].in = 0; EV[k].out = output;
  nldin = inputs->len; for (int i = 0; i < inputs->len && i < 4; i++) LDIN[i] = inputs->data[i];
  if (nondet_bool_()) exit(1);
}
static char A[] = "a.c", B[] = "b.c";
static void at_exit_checks(_Bool success) {
  _Bool tmp_ok = !other_create;
  for (int i = 0; i < nmk && i < 8; i++) tmp_ok &= registered(MK[i]);
  OBLIGE(tmp_ok, "C14.4 every temporary file is created by mkstemp (a name unique to this invocation) and is registered for removal before anything can fail");
  OBLIGE(atexit_ok && !atexit_late, "C14.4 the removal of temporaries is registered with atexit before the first temporary exists");
  // the launches so far, against the prescribed sequence
  _Bool seq = 1; char *in[2] = {A, B};
#if MODE == 0
  int per = 2; char *outs[2] = {"a.o", "b.o"};
#elif MODE == 1
  int per = 1; char *outs[2] = {"a.s", "b.s"};
#else
  int per = 2; char *outs[2] = {0, 0};
#endif
  int total = 2 * per + (MODE == 2);
  seq &= nev <= total; if (success) seq &= nev == total;
  for (int k = 0; k < nev && k < total && k < NE; k++) {
    if (MODE == 2 && k == 2 * per) {
      seq &= EV[k].kind == 2 && streq(EV[k].out, "out") && nldin == 2 && LDIN[0] == EV[1].out && LDIN[1] == EV[3].out;
      continue;
    }
    int i = k / per, step = k % per;
    if (step == 0) {
      seq &= EV[k].kind == 0 && EV[k].in == in[i];
      if (MODE == 1) seq &= streq(EV[k].out, outs[i]); else seq &= from_mkstemp(EV[k].out);
    } else {
      seq &= EV[k].kind == 1 && EV[k].in == EV[k - 1].out;
      if (MODE == 0) seq &= streq(EV[k].out, outs[i]); else seq &= from_mkstemp(EV[k].out) && EV[k].out != EV[k].in;
    }
  }
  // all temporaries handed to sub-processes are pairwise distinct
  for (int a = 0; a < nmk && a < 8; a++) for (int b = a + 1; b < nmk && b < 8; b++) seq &= MK[a] != MK[b];
  OBLIGE(seq, "C14.4 launches are, per input in order: front end (input -> .s or a fresh temporary), then the assembler on exactly that file, and the linker last over the objects; outputs are named after the inputs");
}
void harness(void) {
  static char P0[] = "chibicc", OC[] = "-c", OS[] = "-S", OO[] = "-o", OUT[] = "out";
#if MODE == 0
  char *argv[5] = {P0, OC, A, B, 0}; int argc = 4;
#elif MODE == 1
  char *argv[5] = {P0, OS, A, B, 0}; int argc = 4;
#else
  char *argv[6] = {P0, OO, OUT, A, B, 0}; int argc = 5;
#endif
  tmpfiles = (StringArray){0}; input_paths = (StringArray){0}; include_paths = (StringArray){0}; ld_extra_args = (StringArray){0};
  nev = 0; nmk = 0; atexit_ok = 0; atexit_late = 0; other_create = 0; opt_x = FILE_NONE;
  int rc = main(argc, argv);
  REACH("main returns");
  OBLIGE(rc == 0, "C14.4 the driver reports success only when every launch succeeded");
  at_exit_checks(1);
}
