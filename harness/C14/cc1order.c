// C14.3  output is written only after code generation has returned: real main.c cc1() with the front-end stages
// (tokenize, preprocess, parse, codegen) and the stdio calls as ghost stubs that record an event order; any stage
// may fail (the stub then does not return, like error()).  Obligation: the output path is opened (= created or
// truncated) only after codegen returned, and codegen writes into a memory buffer, never into the output file.
#include "verif.h"
#include "main.c"
int ev, at_tokenize = -1, at_preprocess = -1, at_parse = -1, at_codegen_ret = -1, at_open_out = -1, at_fwrite = -1;
FILE *g_membuf = (FILE *)0x1000, *g_outfile = (FILE *)0x2000, *g_codegen_target;
_Bool nondet_bool_(void);
Token TK; Obj PR;
Token *tokenize_file(char *path) { at_tokenize = ev++; ASSUME(nondet_bool_()); return &TK; }
Token *preprocess(Token *tok) { at_preprocess = ev++; ASSUME(nondet_bool_()); return &TK; }
void join_adjacent_string_literals(Token *tok) { }   /* preprocess.c; a stage-internal step of the front end */
Obj *parse(Token *tok) { at_parse = ev++; ASSUME(nondet_bool_()); return &PR; }
void codegen(Obj *prog, FILE *out) { g_codegen_target = out; ASSUME(nondet_bool_()); at_codegen_ret = ev++; }
FILE *open_memstream(char **ptr, size_t *sizeloc) { static char b[4]; *ptr = b; *sizeloc = 0; return g_membuf; }
FILE *fopen(const char *path, const char *mode) { if (path == output_file) { at_open_out = ev++; } return nondet_bool_() ? g_outfile : 0; }
int fclose(FILE *f) { return 0; }
size_t fwrite(const void *p, size_t s, size_t n, FILE *f) { if (f == g_outfile) at_fwrite = ev++; return n; }
char *strerror(int e) { return "err"; }
int fprintf(FILE *f, const char *fmt, ...) { return 0; }
char *search_include_paths(char *filename) { return 0; }
void harness(void) {
  static char out[] = "out.s", in[] = "in.c";
  opt_include.len = 0; opt_M = 0; opt_MD = 0; opt_E = 0;
  base_file = in; output_file = out; ev = 0;
  cc1();
  REACH("returns when every stage succeeds");
  OBLIGE(at_tokenize >= 0 && at_tokenize < at_preprocess && at_preprocess < at_parse && at_parse < at_codegen_ret, "C14.3 stages run in order");
  OBLIGE(g_codegen_target == g_membuf, "C14.3 code generation writes into a memory buffer, not into the output file");
  OBLIGE(at_open_out > at_codegen_ret, "C14.3 the output file is opened only after code generation has returned");
  OBLIGE(at_fwrite > at_open_out, "C14.3 the buffered assembly is then written to it");
}
