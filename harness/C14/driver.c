// C14  driver process discipline: real main.c run_subprocess / create_tmpfile / cleanup under assumed contracts of the
// OS interface (fork/execvp/wait/mkstemp/unlink are stubs with nondeterministic outcomes; exit/_exit never return).
#include "verif.h"
#include "main.c"
int g_fork_ret, g_wait_calls, g_wait_status, g_exit_code = -1, g_execs, g_unlinks[4], g_mkstemp_ret, g_closed;
_Bool g_in_child;
int nondet_int_(void);
pid_t fork(void) { g_fork_ret = nondet_int_(); ASSUME(g_fork_ret >= -1); if (g_fork_ret == 0) g_in_child = 1; return g_fork_ret; }
int execvp(const char *file, char *const argv[]) { g_execs++; int ok = nondet_int_(); ASSUME(!ok); /* a successful exec does not return */ return -1; }
pid_t wait(int *status) {
  g_wait_calls++;
  if (g_fork_ret > 0 && g_wait_calls == 1) { *status = g_wait_status; return g_fork_ret; }    /* the one child is reaped once */
  return -1;                                                                                 /* ECHILD: *status is not written */
}
void exit(int code) { g_exit_code = code; ASSUME(0); }
void _exit(int code) { g_exit_code = code; ASSUME(0); }
int mkstemp(char *tmpl) { g_mkstemp_ret = nondet_int_(); ASSUME(g_mkstemp_ret >= -1); return g_mkstemp_ret; }
int close(int fd) { g_closed++; return 0; }
int unlink(const char *p) { for (int i = 0; i < 4; i++) if (tmpfiles.len > i && p == tmpfiles.data[i]) g_unlinks[i]++; return 0; }
char *strerror(int e) { return "err"; }
int fprintf(FILE *f, const char *fmt, ...) { return 0; }
void harness(void) {
#if FN == 0
  char *argv[3] = {"as", "x", 0};
  opt_hash_hash_hash = 0;
  g_wait_status = nondet_int_(); g_wait_calls = 0; g_in_child = 0;
  run_subprocess(argv);
  REACH("returns in some outcome");
  OBLIGE(!g_in_child, "C14.1 the child branch never returns into the driver");
  OBLIGE(g_fork_ret > 0, "C14.1 the driver continues only if a child process was actually started");
  OBLIGE(g_wait_status == 0, "C14.1 the driver continues only if the child's wait status is 0 (no failure exit, no signal)");
#elif FN == 1
  tmpfiles.data = 0; tmpfiles.len = 0; tmpfiles.capacity = 0;
  char *p = create_tmpfile();
  REACH("returns in some outcome");
  OBLIGE(g_mkstemp_ret >= 0, "C14.2 a temporary path is only handed out if mkstemp succeeded");
  OBLIGE(tmpfiles.len == 1 && tmpfiles.data[0] == p, "C14.2 the temporary is registered for removal before it is handed out");
#else
  static char a[] = "/tmp/a", b[] = "/tmp/b", c[] = "/tmp/c"; static char *d[4] = {a, b, c, 0};
  int n = nondet_int_(); ASSUME(0 <= n && n <= 3);
  tmpfiles.data = d; tmpfiles.len = n; tmpfiles.capacity = 4;
  for (int i = 0; i < 4; i++) g_unlinks[i] = 0;
  cleanup();
  REACH("returns");
  for (int i = 0; i < 3; i++) OBLIGE(g_unlinks[i] == (i < n ? 1 : 0), "C14.2 every registered temporary is unlinked exactly once at exit");
#endif
}
