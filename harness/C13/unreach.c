// C13.2  `unreachable()` ("internal error") cannot be reached from the size-directed helpers for the sizes their callers
// establish: reg_ax/reg_dx for object sizes 1,2,4,8 (atomic primitives), store_fp for 4 and 8 (psABI eightbyte
// remainders of float/double only classes), read_buf/write_buf for 1,2,4,8 (bit-field storage units).
#include "verif.h"
#include "dirlog.h"
#include "codegen.c"
#undef println
bool opt_fpic; bool opt_fcommon;
File **get_input_files(void) { static File *none[1]; return none; }
int g_err;
void error(char *fmt, ...) { g_err++; }
int nondet_int_(void);
void harness(void) {
  int k = nondet_int_(); ASSUME(0 <= k && k <= 3);
  int sz = 1 << k;
  g_err = 0;
  char *a = reg_ax(sz), *d = reg_dx(sz);
  if (sz >= 4) store_fp(0, -8, sz);
  store_gp(0, -8, sz);
  REACH("returns");
  OBLIGE(g_err == 0 && a != 0 && d != 0, "C13.2 no internal error for the object sizes 1, 2, 4, 8");
}
