// C13.4  diagnostics are located: real tokenize.c error_at / error_tok / verror_at on every NUL-terminated buffer of NB
// bytes over {a, \n} and every location in it.  stdio is a ghost writer that records the "%s:%d: " header and the
// excerpt; exit() does not return.  Obligations: the header names the file and the 1-based physical line of the
// location; the excerpt is exactly that line; every scan stays inside the buffer (CBMC pointer checks).
#include "verif.h"
#include <stdarg.h>
#include "tokenize.c"
#define NB 8
char *g_file; int g_line = -1; char *g_ex; int g_exlen = -1; int g_exit = -1; int g_calls;
int fprintf(FILE *f, const char *fmt, ...) {
  va_list ap; va_start(ap, fmt);
  if (fmt[0] == '%' && fmt[1] == 's' && fmt[2] == ':') { g_file = va_arg(ap, char *); g_line = va_arg(ap, int); va_end(ap); g_calls++; return 8; }
  if (fmt[0] == '%' && fmt[1] == '.' && fmt[2] == '*') { g_exlen = va_arg(ap, int); g_ex = va_arg(ap, char *); }
  va_end(ap); g_calls++; return 0;
}
int vfprintf(FILE *f, const char *fmt, va_list ap) { return 0; }
void exit(int code) { g_exit = code; }     /* returns here so that the harness can inspect the recorded diagnostic; callers never use the return */
int display_width(char *p, int len) { return len; }
_Bool nondet_bool_(void); int nondet_int_(void);
void harness(void) {
  static char buf[NB + 2]; File f = {0}; Token t = {0};
  for (int i = 0; i < NB; i++) buf[i] = nondet_bool_() ? '\n' : 'a';
  buf[NB] = 0; buf[NB + 1] = 0;
  int pos = nondet_int_(); ASSUME(0 <= pos && pos <= NB);
  f.name = "x.c"; f.contents = buf; current_file = &f;
  int want_line = 1; for (int k = 0; k < NB; k++) if (k < pos && buf[k] == '\n') want_line++;
  int ls = pos; while (ls > 0 && buf[ls - 1] != '\n') ls--;
  int le = pos; while (buf[le] && buf[le] != '\n') le++;
#if FN == 0
  error_at(buf + pos, "msg");
  REACH("diagnostic printed");
  OBLIGE(g_line == want_line, "C13.4 error_at reports the 1-based physical line that contains the location");
#else
  t.file = &f; t.loc = buf + pos; t.line_no = want_line; t.len = 1;
  error_tok(&t, "msg");
  REACH("diagnostic printed");
  OBLIGE(g_line == t.line_no, "C13.4 error_tok reports the token's own line number");
#endif
  OBLIGE(g_file == f.name, "C13.4 the diagnostic names the file the location belongs to");
  OBLIGE(g_ex == buf + ls && g_exlen == le - ls, "C13.4 the excerpt printed is exactly the source line containing the location");
  OBLIGE(g_exit == 1, "C13.4 a diagnostic is followed by a failure exit status");
}
