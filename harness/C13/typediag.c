// C13.3  ill-typed operands are diagnosed AT A TOKEN: real type.c add_type on the node kinds that carry a validity
// check (assignment to an array, dereference of a non-pointer / void pointer, compare-exchange and exchange on a
// non-pointer) with the offending operand present.  The diagnostic must be issued, and for a token that exists (the
// node's or the operand's own) - never through a field the node kind does not have (a NULL dereference is a crash).
#include "verif.h"
#include "type.c"
static Token TK0, TKA, TKB, TKC; static _Bool diagnosed; static Token *diag_tok;
void error_tok(Token *tok, char *fmt, ...) { diagnosed = 1; diag_tok = tok; REACH("diagnosed"); OBLIGE(tok == &TK0 || tok == &TKA || tok == &TKB || tok == &TKC, "C13.3 the diagnostic is located at a token of the offending expression"); ASSUME(0); }
void harness(void) {
  static Type TI, TV, TP, TA; TI = (Type){TY_INT, 4, 4}; TV = (Type){TY_VOID, 1, 1}; TP = (Type){TY_PTR, 8, 8}; TP.base = &TV; TA = (Type){TY_ARRAY, 8, 4}; TA.base = &TI; TA.array_len = 2;
  ty_int = &TI; ty_void = &TV; static Type TL, TB; TL = (Type){TY_LONG, 8, 8}; ty_long = &TL; TB = (Type){TY_BOOL, 1, 1}; ty_bool = &TB;
  static Node n, a, b, c; n = (Node){0}; a = (Node){0}; b = (Node){0}; c = (Node){0};
  n.tok = &TK0; a.tok = &TKA; b.tok = &TKB; c.tok = &TKC; a.kind = b.kind = c.kind = ND_NUM; a.ty = b.ty = c.ty = &TI;
  n.kind = KIND;
  switch (KIND) {
  case ND_ASSIGN: a.kind = ND_VAR; a.ty = &TA; n.lhs = &a; n.rhs = &b; break;            /* array = ... */
  case ND_DEREF: n.lhs = &a;
#ifdef VOIDP
    a.ty = &TP;                                                                          /* *(void *)p */
#endif
    break;                                                                              /* *(int) */
  case ND_CAS: n.cas_addr = &a; n.cas_old = &b; n.cas_new = &c;
#ifdef VOIDP
    a.ty = &TP;                                                                          /* second operand is not a pointer */
#endif
    break;
  case ND_EXCH: n.lhs = &a; n.rhs = &b; break;                                           /* exchange(non-pointer, v) */
  }
  add_type(&n);
  OBLIGE(0, "C13.3 an ill-typed operand is diagnosed (add_type returned normally)");
}
