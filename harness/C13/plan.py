from engine.core import Job
META = dict(
    level="other",
    claim="Mechanisms behind 'a located diagnostic, never a crash': error_at/error_tok/verror_at print the file name and the 1-based physical line of the offending location, excerpt exactly that source line, never scan outside the buffer, and end with a failure exit (every 8-byte buffer over {a,newline}, every location); the size-directed code-generator helpers cannot reach unreachable() for the sizes their callers use. The crash-free behaviour of the functions under contract elsewhere is checked by CBMC's generated pointer/bounds/division checks in those properties' harnesses (C01-C20), and a crashed or signalled front end makes the driver fail (C14.1).",
    note="Bounded buffers. This does NOT decide the property's universal claim over all byte strings (termination and acceptance of every valid program are outside function-by-function contracts); it decides the located-diagnostic mechanism and lists, in DESIGN.md I.5, the crash defects that the other harnesses exposed and that were repaired (SIGFPE in constant division, SIGSEGV on unnamed bit-fields, internal error on long double static initialisers, assembler rejection of wide bit-field masks).",
    functions=["type.c:add_type", "parse.c:eval2", "parse.c:eval3", "tokenize.c:error_at", "tokenize.c:error_tok", "tokenize.c:verror_at", "codegen.c:reg_ax", "codegen.c:reg_dx", "codegen.c:store_fp", "codegen.c:store_gp", "parse.c:array_designator", "hashmap.c:get_or_insert_entry", "hashmap.c:hashmap_delete2", "main.c:run_subprocess"],
    trusted_base=["CBMC 6.11"],
    assumptions=["stdio is a ghost writer", "display_width is replaced by the byte count (its own loop is not under contract)"],
    explanation="bounded harnesses on the diagnostic functions; safety checks of other properties' harnesses are counted there",
)
def jobs(tier):
    P = dict(mode="plain", cut=[], units=["unicode.c", "type.c"], timeout=300, replay=None, unwind=14)
    return [Job(name="error_at", src="diag.c", group="C13.4 located diagnostics", defs={"FN": "0"}, bounded="8-byte buffers", sample="error_at at every location of every 8-byte buffer", **P),
            Job(name="error_tok", src="diag.c", group="C13.4 located diagnostics", defs={"FN": "1"}, bounded="8-byte buffers", sample="error_tok for a token at every location", **P),
            Job(name="table-put", src="../C17/hm.c", group="C13.2 table maintenance never aborts", defs={"CAP": "4", "OPN": "1"}, mode="legacy", replace=["fnv_hash"], cut=["error", "error_tok", "error_at"], cut_defined=["rehash"],
                unwind=2, unwindset=[f"{l}:18" for l in ("harness.0", "any_state.0", "any_state.1", "wf.0", "wf.1", "wf.2", "slot_of.0", "get_or_insert_entry.0", "memcmp.0", "get_entry.0")], timeout=300, replay=None,
                bounded="capacity 4", sample="put keeps used == occupied slots < capacity, so the probe loops always meet an empty slot"),
            Job(name="table-delete", src="../C17/hm.c", group="C13.2 table maintenance never aborts", defs={"CAP": "4", "OPN": "2"}, mode="legacy", replace=["fnv_hash"], cut=["error", "error_tok", "error_at"],
                unwind=2, unwindset=[f"{l}:18" for l in ("harness.0", "any_state.0", "any_state.1", "wf.0", "wf.1", "wf.2", "slot_of.0", "get_or_insert_entry.0", "memcmp.0", "get_entry.0")], timeout=300, replay=None,
                bounded="capacity 4", sample="delete keeps the occupancy invariant"),
            Job(name="subprocess-status", src="../C14/driver.c", group="C13.5 a crashed front end is a failure", defs={"FN": "0"}, mode="plain", cut=["error", "error_tok", "error_at", "verror_at", "warn_tok"], units=["strings.c"], timeout=300, replay=None, unwind=24,
                sample="run_subprocess: a child killed by a signal or exiting non-zero ends the driver with a failure"),
            Job(name="arrdesig-one", src="../C05/arrdesig.c", group="C13.1 validity checks precede use", defs={"RANGE": "0"}, mode="plain", cut=["error", "error_tok", "error_at", "verror_at", "warn_tok"], units=["type.c"],
                redirect={"const_expr": "stub_const_expr"}, cbmc_flags=["--paths lifo"], timeout=300, replay=None, unwind=8, bounded="token shape [a]", sample="array designator [a] with any 64-bit a"),
            Job(name="arrdesig-range", src="../C05/arrdesig.c", group="C13.1 validity checks precede use", defs={"RANGE": "1"}, mode="plain", cut=["error", "error_tok", "error_at", "verror_at", "warn_tok"], units=["type.c"],
                redirect={"const_expr": "stub_const_expr"}, cbmc_flags=["--paths lifo"], timeout=300, replay=None, unwind=8, bounded="token shape [a ... b]", sample="array designator range [a ... b] with any 64-bit a, b"),
            *[Job(name=f"typediag-{k}{'-void' if v else ''}", src="typediag.c", group="C13.3 diagnostics at a token", defs=dict({"KIND": k}, **({"VOIDP": "1"} if v else {})), mode="plain", cut=["error", "error_at", "verror_at", "warn_tok"], units=[],
                  timeout=300, replay=None, unwind=6, bounded="one ill-typed node per job", sample=f"add_type on an ill-typed {k} node") for (k, v) in (("ND_ASSIGN", 0), ("ND_DEREF", 0), ("ND_DEREF", 1), ("ND_CAS", 0), ("ND_CAS", 1), ("ND_EXCH", 0))],
            *[Job(name=f"fold-{k}-by-minus-one", src="../C07/eval2.c", group="C13.2 the folder does not trap", defs={"KIND": k, "RHS_M1": "1", "FIX_TN": "7", "TRAP_CASE": "1"},
                  units=["type.c"], mode="dfcc", enforce="eval2", rec=True, replace=["add_type"], cut=["error", "error_tok", "error_at", "warn_tok"], timeout=180, replay=None,
                  no_checks=["undefined-shift"], sample=f"eval2 on INT64_MIN {k} -1") for k in ("ND_DIV", "ND_MOD")],
            Job(name="unreachable-sizes", src="unreach.c", group="C13.2 unreachable()", mode="plain", cut=["error_tok", "error_at"], units=["type.c"], timeout=300, replay=None, unwind=10, unwindset=["strcmp.0:40"],
                bounded="sizes 1,2,4,8", sample="reg_ax/reg_dx/store_fp/store_gp over the power-of-two sizes")]
