from engine.core import Job
META = dict(
    level="other",
    claim="Mechanisms behind 'a located diagnostic, never a crash': error_at/error_tok/verror_at print the file name and the 1-based physical line of the offending location, excerpt exactly that source line, never scan outside the buffer, and end with a failure exit (every 8-byte buffer over {a,newline}, every location); the size-directed code-generator helpers cannot reach unreachable() for the sizes their callers use. The crash-free behaviour of the functions under contract elsewhere is checked by CBMC's generated pointer/bounds/division checks in those properties' harnesses (C01-C20), and a crashed or signalled front end makes the driver fail (C14.1).",
    note="Bounded buffers. This does NOT decide the property's universal claim over all byte strings (termination and acceptance of every valid program are outside function-by-function contracts); it decides the located-diagnostic mechanism and lists, in DESIGN.md I.5, the crash defects that the other harnesses exposed and that were repaired (SIGFPE in constant division, SIGSEGV on unnamed bit-fields, internal error on long double static initialisers, assembler rejection of wide bit-field masks).",
    functions=["tokenize.c:error_at", "tokenize.c:error_tok", "tokenize.c:verror_at", "codegen.c:reg_ax", "codegen.c:reg_dx", "codegen.c:store_fp", "codegen.c:store_gp"],
    trusted_base=["CBMC 6.11"],
    assumptions=["stdio is a ghost writer", "display_width is replaced by the byte count (its own loop is not under contract)"],
    explanation="bounded harnesses on the diagnostic functions; safety checks of other properties' harnesses are counted there",
)
def jobs(tier):
    P = dict(mode="plain", cut=[], units=["unicode.c", "type.c"], timeout=300, replay=None, unwind=14)
    return [Job(name="error_at", src="diag.c", group="C13.4 located diagnostics", defs={"FN": "0"}, bounded="8-byte buffers", sample="error_at at every location of every 8-byte buffer", **P),
            Job(name="error_tok", src="diag.c", group="C13.4 located diagnostics", defs={"FN": "1"}, bounded="8-byte buffers", sample="error_tok for a token at every location", **P),
            Job(name="unreachable-sizes", src="unreach.c", group="C13.2 unreachable()", mode="plain", cut=["error_tok", "error_at"], units=["type.c"], timeout=300, replay=None, unwind=10, unwindset=["strcmp.0:40"],
                bounded="sizes 1,2,4,8", sample="reg_ax/reg_dx/store_fp/store_gp over the power-of-two sizes")]
