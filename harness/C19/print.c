// C19.1  -E token printer: real main.c print_tokens on every pair of adjacent tokens drawn from a spelling alphabet,
// with symbolic white-space / line-start flags.  fprintf is a ghost writer.  Obligations: each spelling is written
// once, in order; a token that begins a line is preceded by a newline; and wherever re-lexing the two spellings written
// back to back would NOT split after the first token (spec maximal-munch lexer below, written from C11 6.4), a
// separator is written between them.  Bounded: the spelling alphabet.
#include "verif.h"
#include <stdarg.h>
#include "main.c"
#define NSP 26
static char *SP[NSP] = {"-", "+", "<", "=", "/", "*", ".", "a", "1", "x1", "\"s\"", "L", "(", ")", ">", "&", "#", "1e", "...", "<<", "%", ":", "--", "++", "&&", "->"};
static int KD[NSP] = {TK_PUNCT, TK_PUNCT, TK_PUNCT, TK_PUNCT, TK_PUNCT, TK_PUNCT, TK_PUNCT, TK_IDENT, TK_PP_NUM, TK_IDENT, TK_STR, TK_IDENT, TK_PUNCT, TK_PUNCT, TK_PUNCT, TK_PUNCT, TK_PUNCT, TK_PP_NUM, TK_PUNCT, TK_PUNCT, TK_PUNCT, TK_PUNCT, TK_PUNCT, TK_PUNCT, TK_PUNCT, TK_PUNCT};
// ghost writer
#define GL 16
int g_n; int g_kind[GL]; char *g_ptr[GL];   /* 1 newline, 2 space, 3 token */
int fprintf(FILE *f, const char *fmt, ...) {
  va_list ap; va_start(ap, fmt);
  if (g_n < GL) {
    if (fmt[0] == '\n') g_kind[g_n] = 1;
    else if (fmt[0] == ' ') g_kind[g_n] = 2;
    else { int len = va_arg(ap, int); char *p = va_arg(ap, char *); g_kind[g_n] = 3; g_ptr[g_n] = p; (void)len; }
  }
  g_n++; va_end(ap); return 0;
}
FILE *fopen(const char *p, const char *m) { return 0; }
// ---- spec lexer (C11 6.4, maximal munch): length of the first preprocessing token of s
static int is_idc(char c) { return (c >= 'a' && c <= 'z') || (c >= 'A' && c <= 'Z') || c == '_' || c == '$'; }
static int is_dig(char c) { return c >= '0' && c <= '9'; }
static int spec_first_len(const char *s) {
  // comments are not tokens: an opener swallows what follows
  if (s[0] == '/' && (s[1] == '/' || s[1] == '*')) return -1;
  // string / character literal with optional encoding prefix
  int pre = 0;
  if (s[0] == 'L' || s[0] == 'U') pre = 1; else if (s[0] == 'u') pre = s[1] == '8' ? 2 : 1;
  if (s[pre] == '"' || s[pre] == '\'') { char q = s[pre]; int i = pre + 1; while (s[i] && s[i] != q) i++; return s[i] ? i + 1 : i; }
  if (s[0] == '"' || s[0] == '\'') { char q = s[0]; int i = 1; while (s[i] && s[i] != q) i++; return s[i] ? i + 1 : i; }
  // pp-number: digit | . digit, then (digit | identifier-nondigit | e+ e- E+ E- p+ p- P+ P- | .)*
  if (is_dig(s[0]) || (s[0] == '.' && is_dig(s[1]))) {
    int i = 1;
    for (;;) {
      if ((s[i] == '+' || s[i] == '-') && (s[i - 1] == 'e' || s[i - 1] == 'E' || s[i - 1] == 'p' || s[i - 1] == 'P')) i++;
      else if (is_dig(s[i]) || is_idc(s[i]) || s[i] == '.') i++;
      else break;
    }
    return i;
  }
  if (is_idc(s[0])) { int i = 1; while (is_idc(s[i]) || is_dig(s[i])) i++; return i; }
  // punctuators, longest first
  static const char *p3[] = {"<<=", ">>=", "...", "%:%"}; static const char *p2[] = {"->", "++", "--", "<<", ">>", "<=", ">=", "==", "!=", "&&", "||", "*=", "/=", "%=", "+=", "-=", "&=", "^=", "|=", "##", "<:", ":>", "<%", "%>", "%:"};
  for (int i = 0; i < 4; i++) if (s[0] == p3[i][0] && s[1] == p3[i][1] && s[2] == p3[i][2]) return 3;
  for (int i = 0; i < 25; i++) if (s[0] == p2[i][0] && s[1] == p2[i][1]) return 2;
  return 1;
}
int nondet_int_(void); _Bool nondet_bool_(void);
void harness(void) {
  Token T[3]; char cat[16];
  int i0 = nondet_int_(), i1 = nondet_int_(); ASSUME(0 <= i0 && i0 < NSP && 0 <= i1 && i1 < NSP);
  int idx[2] = {i0, i1};
  for (int i = 0; i < 2; i++) { T[i] = (Token){0}; T[i].kind = (KD[idx[i]] == TK_PP_NUM && nondet_bool_()) ? TK_NUM : KD[idx[i]];   /* numbers are TK_NUM once convert_pp_tokens has run, TK_PP_NUM before */ T[i].loc = SP[idx[i]]; T[i].len = (int)strlen(SP[idx[i]]); T[i].at_bol = nondet_bool_(); T[i].has_space = nondet_bool_(); T[i].next = &T[i + 1]; }
  T[2] = (Token){0}; T[2].kind = TK_EOF;
  ASSUME(T[0].at_bol);                         /* the first token of a file begins a line */
  // macro provenance must not matter to the printer: the tokens may come from the same macro invocation, from
  // different ones, or from none
  static Token ORG[2]; T[0].origin = nondet_bool_() ? &ORG[0] : (Token *)0; T[1].origin = nondet_bool_() ? (nondet_bool_() ? &ORG[0] : &ORG[1]) : (Token *)0;
  opt_o = 0; g_n = 0;
  print_tokens(&T[0]);
  REACH("returns");
  // the two spellings appear once each, in order
  int w0 = -1, w1 = -1, ntok = 0;
  for (int k = 0; k < GL; k++) { if (k >= g_n) break; if (g_kind[k] == 3) { if (ntok == 0) w0 = k; else if (ntok == 1) w1 = k; ntok++; } }
  OBLIGE(ntok == 2 && g_ptr[w0] == T[0].loc && g_ptr[w1] == T[1].loc, "C19.1 every token's spelling is written exactly once, in order");
  _Bool sep = w1 - w0 > 1, nl = 0;
  for (int k = 0; k < GL; k++) if (k > w0 && k < w1 && g_kind[k] == 1) nl = 1;
  OBLIGE(nl == T[1].at_bol, "C19.1 a token that begins a line is written on a new line, and only then");
  OBLIGE(!T[1].has_space || T[1].at_bol || sep, "C19.1 white space in the source is kept");
  // must the two spellings be separated?
  int n = 0; for (int k = 0; SP[i0][k]; k++) cat[n++] = SP[i0][k]; for (int k = 0; SP[i1][k]; k++) cat[n++] = SP[i1][k]; cat[n] = 0; cat[n + 1] = 0;
  int fl = spec_first_len(cat);
  _Bool must = fl != T[0].len;
  OBLIGE(!must || sep, "C19.1 two tokens whose spellings would re-lex differently when adjacent are separated by white space");
}
