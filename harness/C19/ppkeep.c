// C19.2  what -E prints is what the preprocessor produced: real preprocess.c preprocess() (stand-ins: preprocess2 yields a
// prepared token list, convert_pp_tokens is a no-op) must hand back EVERY token it was given - in particular adjacent
// string literals stay separate tokens with their own spelling (joining them is the compiler proper's business, done
// in cc1 after the -E exit; a joined token keeps only the first literal's spelling and -E would print "a" for "a" "b").
#include "verif.h"
#include "preprocess.c"
StringArray include_paths; char *base_file; bool opt_fpic; bool opt_fcommon;
bool file_exists(char *p) { return 0; }
bool equal(Token *tok, char *op) { size_t n = strlen(op); return (size_t)tok->len == n && !memcmp(tok->loc, op, n); }
static Token T[5]; static File F;
Token *stub_preprocess2(Token *tok) { return &T[0]; }
void stub_convert_pp_tokens(Token *tok) { }
void stub_init_macros(void) { }
static void mk(Token *t, TokenKind k, char *s) { *t = (Token){0}; t->kind = k; t->loc = s; t->len = (int)strlen(s); t->next = t + 1; t->file = &F; }
void harness(void) {
  static Type CT, AT; CT = (Type){TY_CHAR, 1, 1}; AT = (Type){TY_ARRAY, 2, 1}; AT.base = &CT; AT.array_len = 2; ty_char = &CT;
  mk(&T[0], TK_IDENT, "p"); mk(&T[1], TK_STR, "\"a\""); mk(&T[2], TK_STR, "\"b\""); mk(&T[3], TK_PUNCT, ";"); mk(&T[4], TK_EOF, ""); T[4].next = 0;
  T[1].str = "a"; T[1].ty = &AT; T[2].str = "b"; T[2].ty = &AT;
  cond_incl = 0;
  Token *out = preprocess(&T[0]);
  REACH("returns");
  OBLIGE(out == &T[0] && T[0].next == &T[1] && T[1].next == &T[2] && T[2].next == &T[3] && T[3].next == &T[4], "C19.2 preprocess returns the macro-expanded token list unchanged: adjacent string literals remain separate tokens");
  OBLIGE(T[1].len == 3 && T[2].len == 3 && T[1].kind == TK_STR && T[2].kind == TK_STR, "C19.2 each literal keeps its own spelling for -E");
}
