from engine.core import Job
META = dict(
    level="other",
    claim="The -E token printer (real print_tokens/need_space) writes every spelling once and in order, starts a new line exactly for tokens that begin a line, keeps source white space, and writes a separator between any two adjacent tokens whose concatenated spellings an independent C11 6.4 maximal-munch lexer would not split after the first token — for every ordered pair from a 26-spelling alphabet (punctuators incl. digraph parts, identifiers, pp-numbers incl. an exponent stem, a string literal and an encoding prefix) and all flag combinations.",
    note="Bounded by the spelling alphabet; only adjacent pairs (the predicate is pairwise). Assumed: fprintf is the ghost writer. The tokens' macro provenance (origin) is symbolic and must not influence the printer; preprocess() hands back every token it was given (adjacent string literals stay separate for -E). Not covered: that the real tokenizer agrees with the spec lexer, white-space flag propagation through macro expansion, idempotence of -E on its own output.",
    functions=["main.c:print_tokens", "main.c:need_space", "preprocess.c:preprocess"],
    trusted_base=["CBMC 6.11", "spec lexer in harness/C19/print.c"],
    assumptions=["ghost fprintf"],
    explanation="bounded symbolic harness on the real token printer against a spec lexer",
)
def jobs(tier):
    return [Job(name="print_tokens-pairs", src="print.c", group="C19.1 separator", mode="plain", cut=["error", "error_tok", "error_at", "verror_at", "warn_tok"], units=[],
                unwind=64, timeout=600, replay=None, bounded="26-spelling alphabet, adjacent pairs", sample="print_tokens on every ordered pair of spellings with symbolic at_bol/has_space/origin"),
            Job(name="preprocess-keeps-tokens", src="ppkeep.c", group="C19.2 printed tokens", mode="plain", cut=["error", "error_tok", "error_at", "verror_at", "warn_tok"], units=["type.c"],
                redirect={"preprocess2": "stub_preprocess2", "convert_pp_tokens": "stub_convert_pp_tokens"}, unwind=8, timeout=300, replay=None, bounded="one four-token list", sample="preprocess() on  p \"a\" \"b\" ;")]
