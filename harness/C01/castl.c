// C02.1  conversions between long double and the integer types, on INTEGER-VALUED long double values (the ghost
// machine's x87 registers hold integers; 80-bit images, fractions and rounding are outside CBMC's model):
//   DIR 0  long double -> integer TO: for every integer value v representable in TO (|v| < 2^63) the result is v
//          (C11 6.3.1.4p1 on an integral value), canonical in the register, the x87 operand is consumed;
//   DIR 1  integer FROM -> long double: every value of FROM arrives on the x87 stack as itself (exact: 64-bit mantissa).
// Real cast() on the ghost machine; loop-free, full value domain of the stated set.
#include "cg_harness.h"
void harness(void) {
  cg_init();
  Type *ld = &CGT[TI_LDOUBLE], *it = &CGT[ITY];
  IN(int64_t, v); IN(uint64_t, garbage);
  SpecTy st_ = cg_st(it);
#if DIR == 0
  CG_ENTRY_STATE(1);
  ASSUME(it->kind == TY_BOOL || (spec_canon(st_, v) && (!st_.uns || v >= 0)));   /* representable in the target */
  m.x87 = 1; m.st_int[0] = 1; m.st[0] = v; m.r[RAX] = garbage;
  cast(ld, it);
  REACH("cast returns");
  OBLIGE(!m.unknown && !m.bad && m.sp == 1 && depth == 1 && !m.skip, "C02.1 conversion text understood; stack untouched; no jump pending");
  OBLIGE(m.x87 == 0, "C02.1 the long double operand is consumed");
  OBLIGE(cg_holds(it, it->kind == TY_BOOL ? (uint64_t)(v != 0) : (uint64_t)v), "C02.1 an integral long double value converts to that value in every integer type that can represent it");
#else
  CG_ENTRY_STATE(1);
  ASSUME(spec_canon(st_, v));
  m.x87 = 0; m.r[RAX] = it->size == 8 ? (uint64_t)v : ((garbage << 32) | (uint32_t)v);
  cast(it, ld);
  REACH("cast returns");
  OBLIGE(!m.unknown && !m.bad && m.sp == 1 && depth == 1 && !m.skip, "C02.1 conversion text understood; stack untouched; no jump pending");
  _Bool big = st_.uns && st_.size == 8 && v < 0;      /* unsigned long >= 2^63: the machine tracks 'signed value + 2^64' as tag 2 */
  OBLIGE(m.x87 == 1 && m.st[0] == v && m.st_int[0] == (big ? 2 : 1), "C02.1 every integer value converts to the same value as a long double (exact)");
#endif
}
