// C02.1  conversions involving float/double: real cast() executed on the ghost machine (CBMC IEEE-754 semantics,
// round-to-nearest-even) for every source value for which C11 6.3.1.4/6.3.1.5 defines the result.
// FROM/TO concrete per job (index into CGT); plain harness, loop-free => complete over the value domain.
#include "cg_harness.h"
static _Bool is_fp(int t) { return t == TI_FLOAT || t == TI_DOUBLE; }
void harness(void) {
  cg_init();
  Type *from = &CGT[FROM], *to = &CGT[TO];
  IN(uint64_t, v); IN(uint64_t, garbage);
  CG_ENTRY_STATE(1);
  double src;                      /* the source value as a real number (double holds every float and, below, is compared exactly) */
  if (FROM == TI_FLOAT) { m.xmm[0] = (garbage << 32) | (uint32_t)v; src = (double)gm_f32(v); }
  else if (FROM == TI_DOUBLE) { m.xmm[0] = v; src = gm_f64(v); }
  else { ASSUME(spec_canon(cg_st(from), (int64_t)v)); m.r[RAX] = from->size == 8 ? v : ((garbage << 32) | (uint32_t)v); src = 0; }
  _Bool defined = 1; uint64_t want = 0;
  if (is_fp(FROM) && !is_fp(TO)) {
    // 6.3.1.4p1: the fractional part is discarded; undefined if the integral part is not representable in the target
    SpecTy st_ = cg_st(to);
    if (src != src) defined = 0;
    else if (to->kind == TY_BOOL) { want = src != 0; }
    else {
      double lo, hi;   /* representable iff lo < src < hi (after truncation) */
      if (st_.uns) { lo = -1.0; hi = st_.size == 8 ? 18446744073709551616.0 : (double)(1UL << (8 * st_.size)); }
      else { hi = st_.size == 8 ? 9223372036854775808.0 : (double)(1L << (8 * st_.size - 1)); lo = -hi - 1.0; }
      if (!(src > lo && src < hi)) defined = 0;
      else want = st_.uns ? (st_.size == 8 ? (uint64_t)src : (uint64_t)(int64_t)src) : (uint64_t)(int64_t)src;
    }
    if (to->kind == TY_BOOL && src != src) { defined = 1; want = 1; }     /* NaN != 0 */
  } else if (!is_fp(FROM) && is_fp(TO)) {
    // 6.3.1.4p2: exact if representable, else the nearest (CBMC: RNE) value
    SpecTy sf = cg_st(from);
    if (TO == TI_FLOAT) want = gm_b32(sf.uns && sf.size == 8 ? (float)(uint64_t)v : (float)(int64_t)v);
    else want = gm_b64(sf.uns && sf.size == 8 ? (double)(uint64_t)v : (double)(int64_t)v);
  } else {
    if (TO == TI_FLOAT) want = gm_b32((float)src); else want = gm_b64(src);
    if (src != src) defined = 0;      /* NaN payload propagation is not specified by C11; checked separately as "stays NaN" */
  }
  ASSUME(defined);
  cast(from, to);
  REACH("cast returns");
  OBLIGE(!m.unknown && !m.bad && m.sp == 1 && depth == 1 && !m.skip, "C02.1 conversion text understood; stack untouched; no jump pending");
  OBLIGE(cg_holds(to, to->kind == TY_BOOL ? want : is_fp(TO) ? want : (uint64_t)spec_conv(cg_st(to), (int64_t)want)), "C02.1 conversion yields the C11 value (bit-exact for floating results)");
}
