// C01.3  integer conversion table: real cast() (a leaf: no recursion, no loops) executed on the ghost machine
// from an arbitrary register state satisfying the register convention of the source type.  FROM/TO are concrete
// per job because they select the instruction text.  Loop-free, full value domain => complete.
#include "cg_harness.h"
void harness(void) {
  cg_init();
  Type *from = &CGT[FROM], *to = &CGT[TO];
  IN(uint64_t, v); IN(uint64_t, garbage);
  SpecTy sf = cg_st(from), st_ = cg_st(to);
  ASSUME(spec_canon(sf, (int64_t)v));
  CG_ENTRY_STATE(1);
  // register convention of the source type: <=32-bit integers live in eax, upper half of rax unspecified
  m.r[RAX] = from->size == 8 ? v : ((garbage << 32) | (uint32_t)v);
  REACH("explored");
  cast(from, to);
  REACH("cast returns");
  int64_t want = spec_conv(st_, (int64_t)v);
  OBLIGE(!m.unknown, "C01.3 conversion text is inside the machine vocabulary");
  OBLIGE(!m.bad && m.sp == 1 && depth == 1 && !m.skip, "C01.3 conversion leaves the stack alone and no jump pending");
  OBLIGE(cg_holds(to, (uint64_t)want), "C01.3 rax holds (to)(from)v per C11 6.3.1.3 under the register convention of the target type");
}
