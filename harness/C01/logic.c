// C01.5 / C03.5  short-circuit operators and the conditional operator through real gen_expr.
// Forward jumps emitted by the code are executed by the ghost machine (text is skipped until the label is
// emitted), so a child that C11 says must not be evaluated is skipped: the contract of a skipped child changes
// nothing and records no evaluation.
#include "cg_harness.h"
#ifndef KIND
#define KIND ND_LOGAND
#endif
void harness(void) {
  cg_init();
  Node a = {0}, b = {0}, c = {0}, n = {0};
  IN(int, ta); IN(int, tb); IN(int, tc); IN(uint64_t, va); IN(uint64_t, vb); IN(uint64_t, vc);
  ASSUME(0 <= ta && ta <= TI_PTR && 0 <= tb && tb <= TI_PTR && 0 <= tc && tc <= TI_PTR);
  cg_node(&a, ND_NULL_EXPR, &CGT[ta]); cg_node(&b, ND_NULL_EXPR, &CGT[tb]); cg_node(&c, ND_NULL_EXPR, &CGT[tc]);
  ASSUME(spec_canon(cg_st(a.ty), (int64_t)va) && spec_canon(cg_st(b.ty), (int64_t)vb) && spec_canon(cg_st(c.ty), (int64_t)vc));
  int64_t want; _Bool eval_a = 1, eval_b, eval_c = 0;
  if (KIND == ND_COND) {
    // cond ? a : b  -- both arms converted to the result type by add_type
    ASSUME(ta == tb);
    cg_node(&n, ND_COND, &CGT[ta]); n.cond = &c; n.then = &a; n.els = &b;
    eval_c = 1; eval_a = vc != 0; eval_b = vc == 0; want = vc != 0 ? (int64_t)va : (int64_t)vb;
  } else {
    cg_node(&n, KIND, &CGT[TI_INT]); n.lhs = &a; n.rhs = &b;
    if (KIND == ND_LOGAND) { eval_b = va != 0; want = va != 0 && vb != 0; }
    else { eval_b = va == 0; want = va != 0 || vb != 0; }
  }
  REACH("explored");
  cg_child[0] = &a; cg_child[1] = &b; cg_child[2] = &c; cg_val[0] = va; cg_val[1] = vb; cg_val[2] = vc;
  cg_val[CG_NCHILD] = (uint64_t)want; cg_root = &n;
  CG_ENTRY_STATE(1);
  (void)verif_val(0); (void)cg_holds(n.ty, 0); (void)cg_x87_delta(n.ty);
  gen_expr(&n);
  REACH("gen_expr returns");
  OBLIGE(!m.skip, "C03.5 no pending jump: every label jumped to was emitted");
  OBLIGE((cg_child_at[0] >= 0) == eval_a, "C03.5 first/then operand evaluated exactly when C11 says");
  OBLIGE((cg_child_at[1] >= 0) == eval_b, "C03.5 second/else operand evaluated exactly when C11 says");
  OBLIGE(KIND != ND_COND || (cg_child_at[2] >= 0 && (cg_child_at[0] < 0 || cg_child_at[2] < cg_child_at[0]) && (cg_child_at[1] < 0 || cg_child_at[2] < cg_child_at[1])), "C03.5 condition evaluated, and before either arm");
  OBLIGE(KIND == ND_COND || !eval_b || cg_child_at[0] < cg_child_at[1], "C03.5 left operand sequenced before right");
}
