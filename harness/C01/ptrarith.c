// C01.2 / C04  pointer arithmetic scaling: real parse.c new_add / new_sub on typed operands.
// ptr +/- n  ==>  the integer operand is multiplied by the size of the pointed-to type (a `long` constant, or the
// run-time size variable if the pointed-to type is a variable-length array) and the result keeps the pointer type;
// n + ptr is canonicalised; ptr - ptr is the byte difference (typed long) divided by the element size.
#include "verif.h"
#include "parse.c"
int nondet_int_(void); _Bool nondet_bool_(void);
static Node *strip(Node *x) { for (int i = 0; i < 3; i++) if (x && x->kind == ND_CAST) x = x->lhs; return x; }   /* look through conversions inserted by add_type */
void harness(void) {
  Token tok = {0}; tok.loc = "x"; tok.len = 1;
  static Type EL, PT, VLA_, TI, TL; static Obj vsz; Node p = {0}, q = {0}, n = {0};
  int esz = nondet_int_(); ASSUME(1 <= esz && esz <= 4096);
  _Bool vla = nondet_bool_();
  TI = (Type){TY_INT, 4, 4}; TL = (Type){TY_LONG, 8, 8}; ty_int = &TI; ty_long = &TL;
  EL = (Type){TY_STRUCT, esz, 1};
  VLA_ = (Type){TY_VLA, 8, 8}; VLA_.base = &TI; vsz.name = "vla_size"; vsz.ty = &TL; vsz.is_local = 1; VLA_.vla_size = &vsz;
  PT = (Type){TY_PTR, 8, 8, 1}; PT.base = vla ? &VLA_ : &EL;
  p.kind = ND_NULL_EXPR; p.ty = &PT; p.tok = &tok; q = p; n.kind = ND_NULL_EXPR; n.ty = &TI; n.tok = &tok;
#if OPN == 0 || OPN == 1
  _Bool swapped = OPN == 0 && nondet_bool_();      /* n + ptr */
  Node *r = OPN == 0 ? (swapped ? new_add(&n, &p, &tok) : new_add(&p, &n, &tok)) : new_sub(&p, &n, &tok);
  REACH("returns");
  OBLIGE(r->kind == (OPN == 0 ? ND_ADD : ND_SUB) && r->lhs == &p, "C01.2 pointer +/- integer: the pointer is the left operand of the resulting node");
  Node *m = r->rhs;
  OBLIGE(m->kind == ND_MUL && strip(m->lhs) == &n, "C01.2 the integer operand is scaled");
  Node *f = strip(m->rhs);
  if (vla) OBLIGE(f->kind == ND_VAR && f->var == &vsz, "C04 a pointer to a variable-length array row is scaled by the run-time row size");
  else OBLIGE(f->kind == ND_NUM && f->val == esz && f->ty != 0 && f->ty->kind == TY_LONG && f->ty->size == 8, "C01.2 the scale factor is sizeof(*ptr) as a long (so the product is computed in 64 bits)");
  add_type(r);
  OBLIGE(r->ty == &PT || (r->ty && r->ty->kind == TY_PTR && r->ty->base == PT.base), "C01.2 the result has the pointer's type");
#else
  ASSUME(!vla);
  Node *r = new_sub(&p, &q, &tok);
  REACH("returns");
  OBLIGE(r->kind == ND_DIV && r->lhs->kind == ND_SUB && r->lhs->lhs == &p && r->lhs->rhs == &q && r->lhs->ty && r->lhs->ty->kind == TY_LONG && r->lhs->ty->size == 8 && !r->lhs->ty->is_unsigned,
         "C01.2 pointer - pointer: the byte difference is a signed long");
  OBLIGE(r->rhs->kind == ND_NUM && r->rhs->val == esz, "C01.2 ... divided by the element size");
#endif
}
