// C01.5 unary operators and leaf constants through real gen_expr (recursive contract, ghost machine).
#include "cg_harness.h"
#ifndef KIND
#define KIND ND_NEG
#endif
void harness(void) {
  cg_init();
  Node a = {0}, b = {0}, n = {0};
  IN(int, ta); IN(int, tn); IN(uint64_t, va); IN(uint64_t, vb);
  ASSUME(0 <= ta && ta <= TI_PTR && 0 <= tn && tn <= TI_PTR);
  cg_node(&a, ND_NULL_EXPR, &CGT[ta]); cg_node(&b, ND_NULL_EXPR, &CGT[tn]); cg_node(&n, KIND, &CGT[tn]);
  SpecTy sa = cg_st(a.ty), sn = cg_st(n.ty);
  ASSUME(spec_canon(sa, (int64_t)va) && spec_canon(sn, (int64_t)vb));
  int64_t want = 0;
  switch (KIND) {
  case ND_NEG: case ND_BITNOT:
    // typed as C11 6.5.3.3 requires: operand already converted to the promoted type, which is the result type
    ASSUME(tn >= TI_INT && tn <= TI_ULONG && ta == tn);
    n.lhs = &a;
    ASSUME(spec_defined(KIND == ND_NEG ? OP_NEG : OP_BITNOT, sn, (int64_t)va, 0));
    want = spec_arith(KIND == ND_NEG ? OP_NEG : OP_BITNOT, sn, (int64_t)va, 0);
    break;
  case ND_NOT:
    ASSUME(tn == TI_INT); n.lhs = &a; want = va == 0; break;
  case ND_COMMA:
    n.lhs = &a; n.rhs = &b; want = (int64_t)vb; break;
  case ND_NUM:
    n.val = (int64_t)vb; want = (int64_t)vb; break;
  }
  REACH("explored");
  cg_child[0] = &a; cg_child[1] = &b; cg_val[0] = va; cg_val[1] = vb; cg_val[CG_NCHILD] = (uint64_t)want; cg_root = &n;
  CG_ENTRY_STATE(1);
  (void)verif_val(0); (void)cg_holds(n.ty, 0); (void)cg_x87_delta(n.ty);
  gen_expr(&n);
  REACH("gen_expr returns");
}
