// C01.2 / C16.3  compound assignment rewriting: real parse.c to_assign on `A op= B` with typed operands.
// The returned tree must compute `A = A op B` with the ORIGINAL operator applied to the (re-read) left operand and the
// UNCONVERTED right operand, so that the usual arithmetic conversions between A and B are applied by add_type exactly
// as for the plain form (C01.1), and the result is converted back to A's type by the assignment.
// FORM 0: plain lvalue; 1: member lvalue (bit-field safe form); 2: _Atomic lvalue (compare-exchange retry loop);
// 3: _Atomic member lvalue (must take the atomic form, too).
#include "verif.h"
#include "parse.c"
#ifndef KIND
#define KIND ND_DIV
#endif
void harness(void) {
  Token tok = {0}; tok.loc = "x"; tok.len = 1;
  Obj va = {0}; Node a = {0}, b = {0}, s = {0}, bin = {0}; Member mem = {0};
  Type TA = {TY_INT, 4, 4}, TB = {TY_LONG, 8, 8, 1}, TS = {TY_STRUCT, 8, 4};
  IN(int, ka); ASSUME(0 <= ka && ka <= 4);
  static Type PB = {TY_INT, 4, 4};
  TA = ka == 0 ? (Type){TY_CHAR, 1, 1, 1} : ka == 1 ? (Type){TY_SHORT, 2, 2} : ka == 2 ? (Type){TY_INT, 4, 4} : ka == 3 ? (Type){TY_LONG, 8, 8} : (Type){TY_PTR, 8, 8, 1};
  if (ka == 4) TA.base = &PB;     /* an (atomic) pointer object: op= on it must take the same path */
  Scope sc = {0}; scope = &sc;
  va.ty = &TA; va.is_local = 1; va.name = "a";
  a.kind = ND_VAR; a.var = &va; a.ty = &TA; a.tok = &tok;
  b.kind = ND_NUM; b.ty = &TB; b.tok = &tok; b.val = 2;
  bin.kind = KIND; bin.tok = &tok; bin.rhs = &b;
#if FORM == 1 || FORM == 3
#if FORM == 3
  TA.is_atomic = 1;          /* an _Atomic member: op= on it is an atomic read-modify-write like on any atomic object */
#endif
  Obj vs = {0}; vs.ty = &TS; vs.is_local = 1; vs.name = "s";
  s.kind = ND_VAR; s.var = &vs; s.ty = &TS; s.tok = &tok;
  mem.ty = &TA; mem.offset = 4;
  a.kind = ND_MEMBER; a.lhs = &s; a.member = &mem; a.var = 0;
#elif FORM == 2
  TA.is_atomic = 1;
#endif
  bin.lhs = &a;
  Node *r = to_assign(&bin);
  REACH("returns");
#if FORM == 0
  OBLIGE(r->kind == ND_COMMA && r->lhs->kind == ND_ASSIGN && r->lhs->lhs->kind == ND_VAR && r->lhs->rhs->kind == ND_ADDR && r->lhs->rhs->lhs == &a,
         "C01.2 op=: the address of the left operand is taken once into a temporary");
  Node *asg = r->rhs;
  OBLIGE(asg->kind == ND_ASSIGN && asg->lhs->kind == ND_DEREF && asg->lhs->lhs->kind == ND_VAR && asg->lhs->lhs->var == r->lhs->lhs->var,
         "C01.2 op=: the result is stored through the temporary");
  Node *op = asg->rhs;
  OBLIGE(op->kind == KIND && op->lhs->kind == ND_DEREF && op->lhs->lhs->kind == ND_VAR && op->lhs->lhs->var == r->lhs->lhs->var,
         "C01.2 op=: the original operator is applied to the re-read left operand");
  OBLIGE(op->rhs == &b, "C01.2 op=: the right operand enters the operation unconverted (usual arithmetic conversions are those of `A op B`)");
#elif FORM == 1
  OBLIGE(r->kind == ND_COMMA && r->lhs->kind == ND_ASSIGN && r->lhs->rhs->kind == ND_ADDR && r->lhs->rhs->lhs == &s, "C01.2 op= on a member: the address of the enclosing object is taken once");
  Node *asg = r->rhs;
  OBLIGE(asg->kind == ND_ASSIGN && asg->lhs->kind == ND_MEMBER && asg->lhs->member == &mem && asg->lhs->lhs->kind == ND_DEREF, "C01.2 op= on a member: stored through the member of the temporary");
  Node *op = asg->rhs;
  OBLIGE(op->kind == KIND && op->lhs->kind == ND_MEMBER && op->lhs->member == &mem && op->rhs == &b, "C01.2 op= on a member: original operator, member re-read, right operand unconverted");
#else
  // ({ addr = &A; val = B; old = *addr; do new = old op val; while (!CAS(addr, &old, new)); new; })
  OBLIGE(r->kind == ND_STMT_EXPR, "C16.3 atomic op= is a statement expression");
  Node *s1 = r->body, *s2 = s1 ? s1->next : 0, *s3 = s2 ? s2->next : 0, *lp = s3 ? s3->next : 0, *last = lp ? lp->next : 0;
  OBLIGE(s1 && s2 && s3 && lp && last && !last->next, "C16.3 atomic op=: five steps");
  OBLIGE(s1->kind == ND_EXPR_STMT && s1->lhs->kind == ND_ASSIGN && s1->lhs->rhs->kind == ND_ADDR && s1->lhs->rhs->lhs == &a, "C16.3 the object's address is taken once");
  OBLIGE(s2->kind == ND_EXPR_STMT && s2->lhs->kind == ND_ASSIGN && s2->lhs->rhs == &b, "C16.3 the right operand is evaluated once, before the loop");
  Obj *addr = s1->lhs->lhs->var, *val = s2->lhs->lhs->var;
  OBLIGE(s3->kind == ND_EXPR_STMT && s3->lhs->kind == ND_ASSIGN && s3->lhs->rhs->kind == ND_DEREF && s3->lhs->rhs->lhs->var == addr, "C16.3 the expected value starts as the object's current value");
  Obj *old = s3->lhs->lhs->var;
  OBLIGE(lp->kind == ND_DO && lp->then->kind == ND_BLOCK && lp->then->body->kind == ND_EXPR_STMT, "C16.3 a retry loop");
  Node *body = lp->then->body->lhs;
  OBLIGE(body->kind == ND_ASSIGN && body->rhs->kind == KIND && body->rhs->lhs->kind == ND_VAR && body->rhs->lhs->var == old && body->rhs->rhs->kind == ND_VAR && body->rhs->rhs->var == val,
         "C16.3 the new value is `expected op operand` with the original operator");
  Obj *nw = body->lhs->var;
  OBLIGE(lp->cond->kind == ND_NOT && lp->cond->lhs->kind == ND_CAS && lp->cond->lhs->cas_addr->var == addr && lp->cond->lhs->cas_old->kind == ND_ADDR && lp->cond->lhs->cas_old->lhs->var == old && lp->cond->lhs->cas_new->var == nw,
         "C16.3 the loop repeats until compare-exchange(object, &expected, new) succeeds");
  OBLIGE(last->kind == ND_EXPR_STMT && last->lhs->kind == ND_VAR && last->lhs->var == nw && old != nw && old != val && addr != old, "C16.3 the value of the expression is the stored value; temporaries are distinct");
#endif
}
