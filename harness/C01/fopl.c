// C02.2  long double arithmetic (operand order and instruction selection, on integer-valued operands with exact integer
// results; MUL/DIV with 8-bit magnitudes), comparison and truth test through real gen_expr on the ghost machine's x87 model: operands are
// integer-valued long doubles (|v| < 2^63) or a NaN.  == != < <= must be the IEEE relations (every comparison with a NaN
// is false except !=), !x is (x == 0) with NaN non-zero.  KIND concrete per job; recursive contract, children abstract.
#include "cg_harness.h"
void harness(void) {
  cg_init();
  Node a = {0}, b = {0}, n = {0};
  Type *t = &CGT[TI_LDOUBLE];
  IN(int64_t, va); IN(int64_t, vb); IN(_Bool, na); IN(_Bool, nb);
  ASSUME((uint64_t)va != CG_LDNAN && (uint64_t)vb != CG_LDNAN);
  cg_node(&a, ND_NULL_EXPR, t); cg_node(&b, ND_NULL_EXPR, t);
  _Bool arith = KIND == ND_ADD || KIND == ND_SUB || KIND == ND_MUL || KIND == ND_DIV;
  cg_node(&n, KIND, arith ? t : &CGT[TI_INT]);
  n.lhs = &a; n.rhs = (KIND == ND_NOT) ? 0 : &b;
  uint64_t want;
  _Bool un = na || (KIND != ND_NOT && nb);
  if (arith) { ASSUME(!na && !nb); }                      /* arithmetic: integer-valued operands with an exactly representable integer result */
  if (KIND == ND_ADD || KIND == ND_SUB) { ASSUME(va > -(1L << 60) && va < (1L << 60) && vb > -(1L << 60) && vb < (1L << 60)); }
  if (KIND == ND_MUL) { ASSUME(va > -256 && va < 256 && vb > -256 && vb < 256); }
  int64_t q = 0;
  if (KIND == ND_DIV) { IN(int64_t, qq); q = qq; ASSUME(q > -256 && q < 256 && vb > -256 && vb < 256 && vb != 0 && va == q * vb); }   /* exact quotients only */
  switch (KIND) {
  case ND_ADD: want = (uint64_t)(va + vb); break; case ND_SUB: want = (uint64_t)(va - vb); break;
  case ND_MUL: want = (uint64_t)(va * vb); break; case ND_DIV: want = (uint64_t)q; break;
  case ND_EQ: want = !un && va == vb; break; case ND_NE: want = un || va != vb; break;
  case ND_LT: want = !un && va < vb; break; case ND_LE: want = !un && va <= vb; break;
  default: want = !na && va == 0; break;
  }
  cg_child[0] = &a; cg_child[1] = &b; cg_val[0] = na ? CG_LDNAN : (uint64_t)va; cg_val[1] = nb ? CG_LDNAN : (uint64_t)vb; cg_val[CG_NCHILD] = want; cg_root = &n;
  CG_ENTRY_STATE(1);
  (void)verif_val(0); (void)cg_holds(t, 0); (void)cg_x87_delta(t);
  gen_expr(&n);
  REACH("gen_expr returns");
}
