// C01.1  result typing and conversion insertion: real type.c add_type / usual_arith_conv / get_common_type with the
// real parse.c new_cast linked in.  Plain harness (children already typed => no recursion), symbolic operand types
// over every integer type; KIND concrete per job.
#include "verif.h"
#include "type.c"
#include "c11_ops.h"
#ifndef KIND
#define KIND ND_ADD
#endif
#ifndef TMAX
#define TMAX 9
#endif
static SpecTy st(Type *t) { SpecTy s = { t->size, t->is_unsigned || t->kind == TY_BOOL, t->kind == TY_BOOL }; return s; }
static _Bool same_ty(Type *t, SpecTy s) {   /* t is an integer type with the size and signedness of s, not _Bool */
  return is_integer(t) && t->kind != TY_BOOL && t->size == s.size && (t->is_unsigned != 0) == (s.uns != 0)
         && t->kind == (s.size == 4 ? (t->kind == TY_ENUM ? TY_ENUM : TY_INT) : s.size == 8 ? TY_LONG : s.size == 2 ? TY_SHORT : TY_CHAR);
}
static Type *pick(int i) {
  switch (i) { case 0: return ty_bool; case 1: return ty_char; case 2: return ty_uchar; case 3: return ty_short; case 4: return ty_ushort;
               case 5: return ty_int; case 6: return ty_uint; case 7: return ty_long; case 8: return ty_ulong; case 9: return enum_type();
               case 10: return ty_float; case 11: return ty_double; default: return ty_ldouble; }
}
void harness(void) {
  Token tok = {0};
  Node a = {0}, b = {0}, c = {0}, n = {0};
  IN(int, ta); IN(int, tb); IN(int, tc);
  ASSUME(0 <= ta && ta <= TMAX && 0 <= tb && tb <= TMAX && 0 <= tc && tc <= 9);
  _Bool anyfl = ta >= 10 || tb >= 10;
  int flrank = (ta >= 10 ? ta : 0) > (tb >= 10 ? tb : 0) ? ta : tb;      /* 10 float < 11 double < 12 long double */
  TypeKind flkind = flrank == 10 ? TY_FLOAT : flrank == 11 ? TY_DOUBLE : TY_LDOUBLE;
  a.kind = b.kind = c.kind = ND_NULL_EXPR; a.tok = b.tok = c.tok = n.tok = &tok;
  a.ty = pick(ta); b.ty = pick(tb); c.ty = pick(tc);
  n.kind = KIND;
  SpecTy sa = st(a.ty), sb = st(b.ty);
  SpecTy want; _Bool conv_l = 0, conv_r = 0; SpecTy opty;
  switch (KIND) {
  case ND_ADD: case ND_SUB: case ND_MUL: case ND_DIV: case ND_MOD: case ND_BITAND: case ND_BITOR: case ND_BITXOR:
    n.lhs = &a; n.rhs = &b; want = spec_uac(sa, sb); opty = want; conv_l = conv_r = 1; break;
  case ND_EQ: case ND_NE: case ND_LT: case ND_LE:
    n.lhs = &a; n.rhs = &b; want = (SpecTy){4, 0, 0}; opty = spec_uac(sa, sb); conv_l = conv_r = 1; break;
  case ND_SHL: case ND_SHR:
    n.lhs = &a; n.rhs = &b; want = spec_promote(sa); opty = want; conv_l = 1; break;
  case ND_NEG: case ND_BITNOT:
    n.lhs = &a; want = spec_promote(sa); opty = want; conv_l = 1; break;
  case ND_NOT: n.lhs = &a; want = (SpecTy){4, 0, 0}; break;
  case ND_LOGAND: case ND_LOGOR: n.lhs = &a; n.rhs = &b; want = (SpecTy){4, 0, 0}; break;
  case ND_COND: n.cond = &c; n.then = &a; n.els = &b; want = spec_uac(sa, sb); opty = want; break;
  case ND_COMMA: n.lhs = &a; n.rhs = &b; want = sb; break;
  case ND_ASSIGN: n.lhs = &a; n.rhs = &b; want = sa; break;
  }
#if TMAX > 9
  ASSUME(anyfl);
  ASSUME(KIND == ND_ADD || KIND == ND_SUB || KIND == ND_MUL || KIND == ND_DIV || KIND == ND_EQ || KIND == ND_NE || KIND == ND_LT || KIND == ND_LE || KIND == ND_COND);
  add_type(&n);
  REACH("add_type returns");
  _Bool cmp = KIND == ND_EQ || KIND == ND_NE || KIND == ND_LT || KIND == ND_LE;
  Node *l = KIND == ND_COND ? n.then : n.lhs, *r = KIND == ND_COND ? n.els : n.rhs;
  OBLIGE(cmp ? (n.ty->kind == TY_INT && n.ty->size == 4) : n.ty->kind == flkind, "C02.6 usual arithmetic conversions: the operation type is the floating type of highest rank among the operands (comparisons yield int)");
  OBLIGE(l->kind == ND_CAST && l->lhs == &a && l->ty->kind == flkind && r->kind == ND_CAST && r->lhs == &b && r->ty->kind == flkind, "C02.6 both operands are converted to that floating type");
  return;
#else
  REACH("explored");
  add_type(&n);
  REACH("add_type returns");
  OBLIGE(n.ty != 0, "C01.1 the node is typed");
  if (KIND == ND_COMMA) OBLIGE(n.ty == b.ty, "C01.1 comma has the type of its right operand");
  else if (KIND == ND_ASSIGN) {
    OBLIGE(n.ty == a.ty, "C01.1 assignment has the type of its left operand");
    OBLIGE(n.rhs != &b && n.rhs->kind == ND_CAST && n.rhs->lhs == &b && n.rhs->ty->kind == a.ty->kind && n.rhs->ty->size == a.ty->size && n.rhs->ty->is_unsigned == a.ty->is_unsigned,
           "C01.1 the assigned value is converted to the type of the left operand");
  } else OBLIGE(same_ty(n.ty, want), "C01.1 result type is the C11 type (promotion / usual arithmetic conversion / int)");
  if (conv_l) OBLIGE(n.lhs->kind == ND_CAST && n.lhs->lhs == &a && same_ty(n.lhs->ty, opty), "C01.1 left operand converted to the operation type");
  if (conv_r) OBLIGE(n.rhs->kind == ND_CAST && n.rhs->lhs == &b && same_ty(n.rhs->ty, opty), "C01.1 right operand converted to the operation type");
  if (KIND == ND_COND) {
    OBLIGE(n.then->kind == ND_CAST && n.then->lhs == &a && same_ty(n.then->ty, opty), "C01.1 second operand of ?: converted to the common type");
    OBLIGE(n.els->kind == ND_CAST && n.els->lhs == &b && same_ty(n.els->ty, opty), "C01.1 third operand of ?: converted to the common type");
    OBLIGE(n.cond == &c, "C01.1 condition left alone");
  }
#endif
}
VERIF_MAIN
