// C02.2  float/double arithmetic, comparison (incl. NaN, infinities, signed zero), negation and truth test through
// real gen_expr on the ghost machine (CBMC IEEE-754).  KIND and precision FT (TI_FLOAT / TI_DOUBLE) concrete per job.
#include "cg_harness.h"
void harness(void) {
  cg_init();
  Node a = {0}, b = {0}, n = {0};
  Type *t = &CGT[FT];
  IN(uint64_t, va); IN(uint64_t, vb);
  if (FT == TI_FLOAT) { va &= 0xffffffffUL; vb &= 0xffffffffUL; }
  cg_node(&a, ND_NULL_EXPR, t); cg_node(&b, ND_NULL_EXPR, t);
  _Bool cmp = KIND == ND_EQ || KIND == ND_NE || KIND == ND_LT || KIND == ND_LE;
  cg_node(&n, KIND, (cmp || KIND == ND_NOT) ? &CGT[TI_INT] : t);
  n.lhs = &a; n.rhs = (KIND == ND_NEG || KIND == ND_NOT) ? 0 : &b;
  uint64_t want;
  if (FT == TI_FLOAT) {
    float x = gm_f32(va), y = gm_f32(vb);
    switch (KIND) {
    case ND_ADD: want = gm_b32(x + y); break; case ND_SUB: want = gm_b32(x - y); break;
    case ND_MUL: want = gm_b32(x * y); break; case ND_DIV: want = gm_b32(x / y); break;
    case ND_EQ: want = x == y; break; case ND_NE: want = x != y; break; case ND_LT: want = x < y; break; case ND_LE: want = x <= y; break;
    case ND_NEG: want = va ^ 0x80000000UL; break;          /* sign bit flipped, everything else (incl. NaN payload, -0.0) kept */
    default: want = !(x != 0); break;                        /* ND_NOT: !x is (x == 0); NaN is non-zero */
    }
    if (!cmp && KIND != ND_NOT && KIND != ND_NEG) ASSUME(!(gm_f32(want) != gm_f32(want)));   /* NaN results: payload unspecified, see fop-nan */
  } else {
    double x = gm_f64(va), y = gm_f64(vb);
    switch (KIND) {
    case ND_ADD: want = gm_b64(x + y); break; case ND_SUB: want = gm_b64(x - y); break;
    case ND_MUL: want = gm_b64(x * y); break; case ND_DIV: want = gm_b64(x / y); break;
    case ND_EQ: want = x == y; break; case ND_NE: want = x != y; break; case ND_LT: want = x < y; break; case ND_LE: want = x <= y; break;
    case ND_NEG: want = va ^ 0x8000000000000000UL; break;
    default: want = !(x != 0); break;
    }
    if (!cmp && KIND != ND_NOT && KIND != ND_NEG) ASSUME(!(gm_f64(want) != gm_f64(want)));
  }
  cg_child[0] = &a; cg_child[1] = &b; cg_val[0] = va; cg_val[1] = vb; cg_val[CG_NCHILD] = want; cg_root = &n;
  CG_ENTRY_STATE(1);
  (void)verif_val(0); (void)cg_holds(t, 0); (void)cg_x87_delta(t);
  gen_expr(&n);
  REACH("gen_expr returns");
}
