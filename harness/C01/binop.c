// C01.5  integer binary operators: real gen_expr under its recursive contract on the ghost x86 machine.
// KIND is concrete per job; operand type class and operand values are symbolic.  The children are abstract
// expressions (their gen_expr calls are replaced by the contract, which leaves "any canonical value of the
// child's type" in rax per the register convention and havocs every other register).
#include "cg_harness.h"
#ifndef KIND
#define KIND ND_ADD
#endif
#ifndef TCLS
#define TCLS 0
#endif

void harness(void) {
  cg_init();
  Node a = {0}, b = {0}, n = {0};
  const int tcls = TCLS;    /* 0 int, 1 uint, 2 long, 3 ulong, 4 pointer operands: concrete per job, because it selects
                               the register-name strings passed to println (symbolic text cannot be parsed) */
  IN(uint64_t, va); IN(uint64_t, vb);
#ifdef BOUND_BITS
  ASSUME((int64_t)va > -(1L << BOUND_BITS) && (int64_t)va < (1L << BOUND_BITS) && (int64_t)vb > -(1L << BOUND_BITS) && (int64_t)vb < (1L << BOUND_BITS));
#endif
  const int sp0 = 1;   /* one occupied slot below the expression (its preservation is part of the contract); concrete to keep stack indices concrete */
  Type *t = tcls == 0 ? &CGT[TI_INT] : tcls == 1 ? &CGT[TI_UINT] : tcls == 2 ? &CGT[TI_LONG] : tcls == 3 ? &CGT[TI_ULONG] : &CGT[TI_PTR];
  Type *ta = t, *tb = t, *tn = t;
  int op = -1; _Bool is_cmp = 0, is_shift = 0;
  switch (KIND) {
  case ND_ADD: op = OP_ADD; if (tcls == 4) tb = &CGT[TI_LONG]; break;      /* pointer + (index*size as long) */
  case ND_SUB: op = OP_SUB; if (tcls == 4) {
#ifdef PTRDIFF
      tn = &CGT[TI_LONG];
#else
      tb = &CGT[TI_LONG];
#endif
    } break;  /* ptr-ptr : long ; ptr-long : ptr */
  case ND_MUL: op = OP_MUL; break;
  case ND_DIV: op = OP_DIV; break;
  case ND_MOD: op = OP_MOD; break;
  case ND_BITAND: op = OP_AND; break;
  case ND_BITOR: op = OP_OR; break;
  case ND_BITXOR: op = OP_XOR; break;
  case ND_SHL: op = OP_SHL; is_shift = 1; break;
  case ND_SHR: op = OP_SHR; is_shift = 1; break;
  case ND_EQ: op = OP_EQ; is_cmp = 1; tn = &CGT[TI_INT]; break;
  case ND_NE: op = OP_NE; is_cmp = 1; tn = &CGT[TI_INT]; break;
  case ND_LT: op = OP_LT; is_cmp = 1; tn = &CGT[TI_INT]; break;
  case ND_LE: op = OP_LE; is_cmp = 1; tn = &CGT[TI_INT]; break;
  }
  if (is_shift) {   /* the count has its own promoted type */
    IN(int, tcnt); ASSUME(0 <= tcnt && tcnt <= 3);
    tb = tcnt == 0 ? &CGT[TI_INT] : tcnt == 1 ? &CGT[TI_UINT] : tcnt == 2 ? &CGT[TI_LONG] : &CGT[TI_ULONG];
  }
  cg_node(&a, ND_NULL_EXPR, ta); cg_node(&b, ND_NULL_EXPR, tb); cg_node(&n, KIND, tn);
  n.lhs = &a; n.rhs = &b;
  SpecTy sa = cg_st(ta), sb = cg_st(tb), sn = cg_st(tn);
  ASSUME(spec_canon(sa, (int64_t)va) && spec_canon(sb, (int64_t)vb));
  int64_t want; _Bool defined;
  if (is_cmp) defined = 1;
  else if (is_shift) defined = spec_shift_defined(op, sn, (int64_t)va, (int64_t)vb);
  else if (tcls == 4) defined = 1;
  else defined = spec_defined(op, sn, (int64_t)va, (int64_t)vb);
  ASSUME(defined);
  if (is_cmp) want = spec_cmp(op, sa, (int64_t)va, (int64_t)vb);
  else if (is_shift) want = spec_shift(op, sn, (int64_t)va, (int64_t)vb);
  else if (tcls == 4) want = op == OP_ADD ? (int64_t)(va + vb) : (int64_t)(va - vb);   /* byte-address arithmetic, scaling is done by new_add/new_sub */
  else want = spec_arith(op, sn, (int64_t)va, (int64_t)vb);
  REACH("defined operands explored");
  cg_child[0] = &a; cg_child[1] = &b; cg_val[0] = va; cg_val[1] = vb; cg_val[CG_NCHILD] = (uint64_t)want; cg_root = &n;
  CG_ENTRY_STATE(sp0);
  (void)verif_val(0); (void)cg_holds(tn, 0); (void)cg_x87_delta(tn);
  gen_expr(&n);
  REACH("gen_expr returns");
}
