// C01.2 / C04.2  ++ and -- : the real parse.c new_inc_dec (with the real to_assign, new_add, new_cast and add_type) builds
// the tree for  A++ / A-- / ++A / --A  (prefix forms are to_assign(A += 1) directly) where A is
//   FORM 0: a plain object of integer type TA        FORM 1: a bit-field member S.x (unit type TA, symbolic offset/width)
// The tree is then EVALUATED by the interpreter below, which gives every node kind the meaning that C11 gives it and
// that the code generator is separately proved to implement (C01.5 operators, C01.3 conversions, C04.1/.2 bit-field
// load/store incl. "the value of an assignment is the stored value").  Obligations (6.5.2.4, 6.5.3.1): the result of
// the postfix form is the OLD value of A, the object afterwards holds old +/- 1 converted to A's type (bit-field: reduced
// to its width), nothing else in the storage unit changes.  All old values, widths, offsets.
#include "verif.h"
#include "parse.c"
#include "c11_ops.h"
void hashmap_put(HashMap *m, char *k, void *v) { }
void *hashmap_get2(HashMap *m, char *k, int l) { return 0; }
#define A0 0x1000L       /* address of the object / struct */
static uint64_t MEM;     /* its 8 bytes */
static Obj *OBJ; static long PTRV; static Obj *PV;      /* the object variable; value of the pointer temporary to_assign creates */
static SpecTy st(Type *t) { SpecTy s = { t->size, t->is_unsigned || t->kind == TY_BOOL || t->kind == TY_PTR, t->kind == TY_BOOL }; return s; }
static long ev(Node *n);
static long addr_of(Node *n) {
  if (n->kind == ND_VAR) { if (n->var == OBJ) return A0; ASSUME(0); }
  if (n->kind == ND_DEREF) return ev(n->lhs);
  if (n->kind == ND_MEMBER) return addr_of(n->lhs) + n->member->offset;
  ASSUME(0); return 0;
}
static uint64_t load(long a, int sz) { ASSUME(a == A0); return sz == 8 ? MEM : sz == 4 ? (uint32_t)MEM : sz == 2 ? (uint16_t)MEM : (uint8_t)MEM; }
static void store(long a, int sz, uint64_t v) { ASSUME(a == A0); uint64_t m = sz == 8 ? ~0UL : ((1UL << (8 * sz)) - 1); MEM = (MEM & ~m) | (v & m); }
static long field_get(Member *mb, uint64_t unit) {
  uint64_t m = mb->bit_width == 64 ? ~0UL : ((1UL << mb->bit_width) - 1), f = (unit >> mb->bit_offset) & m;
  if (!(mb->ty->is_unsigned || mb->ty->kind == TY_BOOL) && mb->bit_width < 64 && ((f >> (mb->bit_width - 1)) & 1)) f |= ~m;
  return (long)f;
}
static long ev(Node *n) {
  switch (n->kind) {
  case ND_NUM: return spec_conv(st(n->ty), n->val);
  case ND_VAR: if (n->var == PV) return PTRV; if (n->ty->kind == TY_STRUCT) return A0; return spec_conv(st(n->ty), (int64_t)load(addr_of(n), n->ty->size));
  case ND_ADDR: return addr_of(n->lhs);
  case ND_DEREF: if (n->ty->kind == TY_STRUCT) return ev(n->lhs); return spec_conv(st(n->ty), (int64_t)load(ev(n->lhs), n->ty->size));
  case ND_MEMBER: { long a = addr_of(n); if (n->member->is_bitfield) return field_get(n->member, load(a, n->member->ty->size)); return spec_conv(st(n->ty), (int64_t)load(a, n->ty->size)); }
  case ND_COMMA: ev(n->lhs); return ev(n->rhs);
  case ND_CAST: return spec_conv(st(n->ty), ev(n->lhs));
  case ND_ADD: return spec_conv(st(n->ty), ev(n->lhs) + ev(n->rhs));
  case ND_SUB: return spec_conv(st(n->ty), ev(n->lhs) - ev(n->rhs));
  case ND_SHL: return spec_conv(st(n->ty), (int64_t)((uint64_t)ev(n->lhs) << (ev(n->rhs) & 63)));
  case ND_SHR: { long l = ev(n->lhs), r = ev(n->rhs) & 63; return spec_conv(st(n->ty), st(n->lhs->ty).uns ? (int64_t)((uint64_t)l >> r) : (l >> r)); }
  case ND_ASSIGN: {
    long v = ev(n->rhs);                                       /* add_type has inserted the conversion to the left type */
    if (n->lhs->kind == ND_VAR && n->lhs->var != OBJ) { PV = n->lhs->var; PTRV = v; return v; }      /* the pointer temporary */
    long a = addr_of(n->lhs);
    if (n->lhs->kind == ND_MEMBER && n->lhs->member->is_bitfield) {
      Member *mb = n->lhs->member; int sz = mb->ty->size; uint64_t m = mb->bit_width == 64 ? ~0UL : ((1UL << mb->bit_width) - 1);
      uint64_t unit = load(a, sz); unit = (unit & ~(m << mb->bit_offset)) | (((uint64_t)v & m) << mb->bit_offset); store(a, sz, unit);
      return field_get(mb, unit);                             /* 6.5.16p3: the value of the left operand after the assignment */
    }
    store(a, n->lhs->ty->size, (uint64_t)v); return spec_conv(st(n->lhs->ty), v);
  }
  default: ASSUME(0); return 0;
  }
}
static Type TYS[5];
void harness(void) {
  TYS[0] = (Type){TY_CHAR, 1, 1}; TYS[1] = (Type){TY_SHORT, 2, 2, 1}; TYS[2] = (Type){TY_INT, 4, 4}; TYS[3] = (Type){TY_INT, 4, 4, 1}; TYS[4] = (Type){TY_LONG, 8, 8};
  ty_int = &TYS[2]; ty_uint = &TYS[3]; ty_long = &TYS[4]; static Type TUL, TB_; TUL = (Type){TY_LONG, 8, 8, 1}; ty_ulong = &TUL; TB_ = (Type){TY_BOOL, 1, 1}; ty_bool = &TB_;
  static Type TCH; TCH = (Type){TY_CHAR, 1, 1}; ty_char = &TCH;
  Token tok = {0}; tok.loc = "x"; tok.len = 1;
  static Scope sc; sc = (Scope){0}; scope = &sc; locals = 0;
  Type *TA = &TYS[UT];
  static Obj va; static Node a, s; static Member mem; static Type TS;
  va = (Obj){0}; a = (Node){0}; s = (Node){0}; mem = (Member){0};
  IN(uint64_t, m0); MEM = m0; PV = 0; PTRV = 0;
  IN(int, addend); ASSUME(addend == 1 || addend == -1);
#if FORM == 0
  va.ty = TA; va.is_local = 1; va.name = "a"; OBJ = &va;
  a.kind = ND_VAR; a.var = &va; a.ty = TA; a.tok = &tok;
  long old = spec_conv(st(TA), (int64_t)load(A0, TA->size));
  long want_new = spec_conv(st(TA), old + addend);
#else
  TS = (Type){TY_STRUCT, 8, 8}; va.ty = &TS; va.is_local = 1; va.name = "s"; OBJ = &va;
  s.kind = ND_VAR; s.var = &va; s.ty = &TS; s.tok = &tok;
  IN(int, bo); IN(int, bw); ASSUME(0 <= bo && 1 <= bw && bo <= 63 && bw <= 64 && bo + bw <= 8 * TA->size);
  mem.ty = TA; mem.offset = 0; mem.is_bitfield = 1; mem.bit_offset = bo; mem.bit_width = bw;
  a.kind = ND_MEMBER; a.lhs = &s; a.member = &mem; a.tok = &tok;
  long old = field_get(&mem, load(A0, TA->size));
  uint64_t fm = bw == 64 ? ~0UL : ((1UL << bw) - 1);
  uint64_t want_unit = (load(A0, TA->size) & ~(fm << bo)) | ((((uint64_t)(old + addend)) & fm) << bo);
  long want_new = field_get(&mem, want_unit);
#endif
  Node *e = new_inc_dec(&a, &tok, addend);
  add_type(e);
  long r = ev(e);
  REACH("evaluated");
  OBLIGE(r == old, "C01.2 the result of A++ / A-- is the value A had before");
#if FORM == 0
  OBLIGE(spec_conv(st(TA), (int64_t)load(A0, TA->size)) == want_new, "C01.2 afterwards A holds the old value plus/minus one, converted to A's type");
  { uint64_t keep = TA->size == 8 ? 0 : ~((1UL << (8 * TA->size)) - 1); OBLIGE((MEM & keep) == (m0 & keep), "C01.2 nothing outside A is written"); }
#else
  OBLIGE(field_get(&mem, load(A0, TA->size)) == want_new, "C04.2 afterwards the bit-field holds the old value plus/minus one reduced to its width");
  OBLIGE(MEM == ((m0 & ~(TA->size == 8 ? ~0UL : 0xffffffffUL)) | want_unit), "C04.2 no other bit of the storage unit (or outside it) changes");
#endif
}
