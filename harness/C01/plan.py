from engine.core import Job

BINOPS = ["ND_ADD", "ND_SUB", "ND_MUL", "ND_DIV", "ND_MOD", "ND_BITAND", "ND_BITOR", "ND_BITXOR", "ND_SHL", "ND_SHR",
          "ND_EQ", "ND_NE", "ND_LT", "ND_LE"]
CG = dict(units=["type.c"], mode="dfcc", enforce="gen_expr", rec=True, cut=["error", "error_tok", "error_at", "warn_tok"],
          no_checks=["signed-overflow", "undefined-shift"], timeout=300)

META = dict(
    level="proof",
    claim="Result typing (add_type/usual_arith_conv/get_common_type) equals C11 6.3.1 for every operator and operand-type pair; the text emitted by the real gen_expr/cast/load/store/cmp_zero, executed on a ghost x86-64 machine, computes the C11 value of every integer operator, conversion, load, store and truth test for all operand values and arbitrary register garbage. Nesting depth is covered by the recursive contract of gen_expr (children abstract). MUL/DIV/MOD value equality is bounded (8-bit magnitudes).",
    note="Trusted: CBMC, the ghost x86 machine (spec/x86_ghost.h, written from the Intel SDM), spec/c11_ops.h, the assembler/CPU. Also under contract: to_assign (op= keeps the operator and the unconverted right operand; three lvalue forms), new_add/new_sub scaling by the pointee size (incl. VLA rows). new_inc_dec: the tree built for A++/A-- is evaluated by an AST interpreter (trusted; each node kind has the meaning proved for the code generator) and yields the old value and stores old+-1, for integer objects and bit-fields of every offset/width. Not covered: the expression grammar (precedence/associativity), parser-side conversion insertion for arguments/returns, ++/-- on pointers and floating objects, MUL/DIV/MOD values beyond 8-bit magnitudes.",
    functions=["codegen.c:gen_expr", "codegen.c:push", "codegen.c:pop", "codegen.c:cast", "codegen.c:load", "codegen.c:store", "codegen.c:cmp_zero", "parse.c:to_assign", "parse.c:new_inc_dec", "parse.c:new_add", "parse.c:new_sub", "type.c:add_type", "type.c:get_common_type", "type.c:usual_arith_conv"],
    trusted_base=["CBMC 6.11", "spec/x86_ghost.h (Intel SDM rendering)", "spec/c11_ops.h"],
    assumptions=[],
)

def jobs(tier):
    js = []
    TC = ["int", "uint", "long", "ulong", "ptr"]
    for k in BINOPS:
        for tc in range(5):
            if tc == 4 and k not in ("ND_ADD", "ND_SUB", "ND_EQ", "ND_NE", "ND_LT", "ND_LE"):
                continue
            variants = [({}, "")]
            if tc == 4 and k == "ND_SUB":
                variants = [({}, ""), ({"PTRDIFF": ""}, "-ptrdiff")]
            for extra, suffix in variants:
                d = {"KIND": k, "TCLS": str(tc)}
                d.update(extra)
                bounded = None
                if k in ("ND_MUL", "ND_DIV", "ND_MOD"):
                    d["BOUND_BITS"] = "8"; bounded = "operand magnitudes < 2^8 (multiplier/divider equivalence out of SAT reach)"
                js.append(Job(name=f"binop-{k}-{TC[tc]}{suffix}", src="binop.c", group="C01.5 operators", defs=d, bounded=bounded,
                              sample=f"gen_expr({k}) on {TC[tc]} operands, all operand values, arbitrary register/stack entry state", **CG))
    for k in ("ND_NEG", "ND_BITNOT", "ND_NOT", "ND_COMMA", "ND_NUM"):
        js.append(Job(name=f"unop-{k}", src="unop.c", group="C01.5 operators", defs={"KIND": k},
                      sample=f"gen_expr({k}), all operand types and values", **CG))
    for k in ("ND_LOGAND", "ND_LOGOR", "ND_COND"):
        js.append(Job(name=f"logic-{k}", src="logic.c", group="C01.5/C03.5 short-circuit", defs={"KIND": k},
                      sample=f"gen_expr({k}): value and which operands are evaluated, all operand types/values", **CG))
    for k in BINOPS + ["ND_NEG", "ND_BITNOT", "ND_NOT", "ND_LOGAND", "ND_LOGOR", "ND_COND", "ND_COMMA", "ND_ASSIGN"]:
        js.append(Job(name=f"typing-{k}", src="typing.c", group="C01.1 result typing", defs={"KIND": k}, units=["parse.c"], mode="plain",
                      cut=["error", "error_tok", "error_at", "warn_tok"], timeout=180,
                      sample=f"add_type({k}) for every pair of integer operand types"))
    for opn, nm in ((0, "add"), (1, "sub"), (2, "diff")):
        js.append(Job(name=f"ptrarith-{nm}", src="ptrarith.c", group="C01.2 pointer arithmetic scaling", defs={"OPN": str(opn)}, units=["type.c", "hashmap.c", "strings.c"], mode="plain",
                      cut=["error", "error_tok", "error_at", "warn_tok"], havoc=["format"], cut_defined=["rehash"], timeout=180, unwind=20, replay=None,
                      sample=f"new_{'add' if opn == 0 else 'sub'} on pointer operands, element size symbolic, VLA rows included"))
    for form in (0, 1, 2):
        for k in ("ND_DIV", "ND_MOD", "ND_SHR", "ND_ADD"):
            js.append(Job(name=f"toassign-form{form}-{k}", src="toassign.c", group="C01.2 op= rewriting", defs={"KIND": k, "FORM": str(form)}, units=["type.c", "hashmap.c", "strings.c"], mode="plain",
                          cut=["error", "error_tok", "error_at", "warn_tok"], havoc=["format"], cut_defined=["rehash"], timeout=180, unwind=20, replay=None,
                          sample=f"to_assign(A {k}= B), {['plain', 'member', '_Atomic'][form]} left operand"))
    TI = ["bool", "char", "uchar", "short", "ushort", "int", "uint", "long", "ulong", "enum", "ptr"]
    PLAIN = dict(units=["type.c"], mode="plain", cut=["error", "error_tok", "error_at", "warn_tok"],
                 no_checks=["signed-overflow", "undefined-shift"], timeout=120)
    for f in range(11):
        for t in range(11):
            js.append(Job(name=f"cast-{TI[f]}-{TI[t]}", src="cast.c", group="C01.3 conversion table",
                          defs={"FROM": str(f), "TO": str(t)},
                          sample=f"cast({TI[f]} -> {TI[t]}) for every source value and arbitrary upper register bits", **PLAIN))
    for t in range(11):
        for opn, nm in ((0, "load"), (1, "store"), (2, "cmpzero")):
            js.append(Job(name=f"{nm}-{TI[t]}", src="loadstore.c", group="C01.4 load/store/cmp_zero",
                          defs={"TY_IDX": str(t), "OPN": str(opn)},
                          sample=f"{nm}({TI[t]}) at an arbitrary address, arbitrary memory", **PLAIN))
    UTN = ["char", "ushort", "int", "uint", "long"]
    for form in (0, 1):
        for ut in ((0, 1, 2, 3, 4) if form == 0 else (2, 3, 4)):
            js.append(Job(name=f"incdec-form{form}-{UTN[ut]}", src="incdec.c", group="C01.2 ++/-- rewriting", defs={"FORM": str(form), "UT": str(ut)}, units=["type.c"], mode="plain",
                          cut=["error", "error_tok", "error_at", "warn_tok"], no_checks=["signed-overflow", "undefined-shift"], havoc=["format"], unwind=24, timeout=600, replay=None,
                          sample=f"new_inc_dec on a{' bit-field of unit type' if form else 'n object of type'} {UTN[ut]}: every old value" + (", offset and width" if form else "")))
    return js
