// C01.4  loads, stores and compare-with-zero for every integer type: real load()/store()/cmp_zero() (leaves) on the
// ghost byte memory.  The type is concrete per job (it selects instruction text through %s).
#include "cg_harness.h"
void harness(void) {
  cg_init();
  Type *ty = &CGT[TY_IDX];
  IN(uint64_t, addr_off); IN(uint64_t, v); IN(uint64_t, garbage); IN(int, probe);
  ASSUME(addr_off >= 8 && addr_off <= GM_DM - 24);
  uint64_t addr = GM_DM_BASE + addr_off;
  ASSUME(0 <= probe && probe < GM_DM);
  unsigned char before = gm_dm[probe];
  int sz = ty->size;
  CG_ENTRY_STATE(0);
#if OPN == 0
  // load: rax = address; afterwards rax holds the object's value, extended per the register convention
  m.r[RAX] = addr;
  uint64_t raw = 0;
  for (int i = 0; i < 8; i++) if (i < sz) raw |= (uint64_t)gm_dm[addr_off + i] << (8 * i);
  REACH("explored");
  load(ty);
  REACH("returns");
  int64_t want = spec_conv(cg_st(ty), (int64_t)raw);
  if (ty->kind == TY_BOOL) ASSUME(raw <= 1);       /* a _Bool object only ever holds 0 or 1 */
  OBLIGE(!m.unknown && !m.bad, "C01.4 load text understood, access inside the object");
  OBLIGE(cg_holds(ty, (uint64_t)want), "C01.4 load reads exactly size bytes and extends by signedness");
  OBLIGE(gm_dm[probe] == before, "C01.4 load does not write memory");
#elif OPN == 1
  // store: address on the stack top, value in rax (convention: upper half garbage for <= 32 bit)
  m.sp = 1; depth = 1; gm_stk[0] = addr;
  m.r[RAX] = sz == 8 ? v : ((garbage << 32) | (uint32_t)v);
  REACH("explored");
  store(ty);
  REACH("returns");
  OBLIGE(!m.unknown && !m.bad, "C01.4 store text understood, access inside the object");
  OBLIGE(m.sp == 0 && depth == 0, "C01.4 store pops the address");
  _Bool inside = (uint64_t)probe >= addr_off && (uint64_t)probe < addr_off + sz;
  OBLIGE(inside || gm_dm[probe] == before, "C01.4 store leaves every byte outside the object unchanged");
  OBLIGE(!inside || gm_dm[probe] == (unsigned char)(v >> (8 * (probe - addr_off))), "C01.4 store writes the low size bytes of the value");
#else
  // compare with zero: ZF iff the value of that type is zero (upper register garbage must be ignored)
  ASSUME(spec_canon(cg_st(ty), (int64_t)v));
  m.r[RAX] = sz == 8 ? v : ((garbage << 32) | (uint32_t)v);
  REACH("explored");
  cmp_zero(ty);
  REACH("returns");
  OBLIGE(!m.unknown && !m.bad && m.flags_valid, "C01.4 cmp_zero text understood");
  OBLIGE(m.zf == (v == 0), "C01.4 ZF set iff the value of the operand's type is zero");
#endif
}
