// C11.3  decoder on arbitrary bytes: every NUL-terminated byte string is either decoded without reading past its
// NUL or diagnosed (error_at = exit); a decoded multi-byte sequence has well-formed continuation bytes.
#include "verif.h"
#include "unicode.c"
void harness(void) {
  char buf[8];
  IN(uint8_t, b0); IN(uint8_t, b1); IN(uint8_t, b2); IN(uint8_t, b3);
  buf[0] = b0; buf[1] = b1; buf[2] = b2; buf[3] = b3; buf[4] = 0; buf[5] = buf[6] = buf[7] = 0x55;
  int slen = b0 == 0 ? 0 : b1 == 0 ? 1 : b2 == 0 ? 2 : b3 == 0 ? 3 : 4;
  ASSUME(slen >= 1);
  REACH("explored");
  char *np = 0;
  uint32_t d = decode_utf8(&np, buf);
  REACH("some strings are accepted");
  OBLIGE(np > buf && np <= buf + slen, "C11.3 decode_utf8 never steps over the terminating NUL");
  int n = (int)(np - buf);
  OBLIGE(n == 1 ? (b0 < 0x80 && d == b0) : 1, "C11.3 ASCII decodes to itself");
  OBLIGE(n < 2 || ((uint8_t)buf[1] >> 6) == 2, "C11.3 second byte of an accepted sequence is a continuation byte");
  OBLIGE(n < 3 || ((uint8_t)buf[2] >> 6) == 2, "C11.3 third byte of an accepted sequence is a continuation byte");
  OBLIGE(n < 4 || ((uint8_t)buf[3] >> 6) == 2, "C11.3 fourth byte of an accepted sequence is a continuation byte");
}
VERIF_MAIN
