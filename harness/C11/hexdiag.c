// C11.2  "\x" not followed by a hex digit never returns normally (it is diagnosed)
#include "verif.h"
#include "tokenize.c"
void harness(void) {
  char buf[4];
  IN(uint8_t, b1);
  buf[0] = 'x'; buf[1] = b1; buf[2] = 0; buf[3] = 0;
  ASSUME(!((b1 >= '0' && b1 <= '9') || (b1 >= 'a' && b1 <= 'f') || (b1 >= 'A' && b1 <= 'F')));
  REACH("explored");
  char *np = 0;
  read_escaped_char(&np, buf);
  OBLIGE(0, "C11.2 invalid hex escape is diagnosed (read_escaped_char returned normally)");
}
VERIF_MAIN
