// C11.3  UTF-8 codec (real unicode.c): for EVERY code point c <= 0x10FFFF, decode(encode(c)) == c, the encoded length
// is that of Unicode table 3-6, the decoder advances by exactly that length.  Loop-free / width-bounded loops =>
// complete over the full domain.
#include "verif.h"
#include "unicode.c"
static int spec_len(uint32_t c) { return c <= 0x7F ? 1 : c <= 0x7FF ? 2 : c <= 0xFFFF ? 3 : 4; }
void harness(void) {
  IN(uint32_t, c);
  ASSUME(c <= 0x10FFFF);
  char buf[8] = {0};
  REACH("explored");
  int n = encode_utf8(buf, c);
  OBLIGE(n == spec_len(c), "C11.3 encode_utf8 length equals Unicode table 3-6");
  unsigned char *u = (unsigned char *)buf;
  // well-formedness of the produced bytes (lead byte pattern, continuation bytes 10xxxxxx)
  OBLIGE(n == 1 ? u[0] < 0x80 : n == 2 ? (u[0] >> 5) == 6 : n == 3 ? (u[0] >> 4) == 14 : (u[0] >> 3) == 30, "C11.3 lead byte announces the length");
  OBLIGE((n < 2 || (u[1] >> 6) == 2) && (n < 3 || (u[2] >> 6) == 2) && (n < 4 || (u[3] >> 6) == 2), "C11.3 continuation bytes are 10xxxxxx");
  OBLIGE(buf[n] == 0 && buf[7] == 0, "C11.3 encode_utf8 writes exactly length bytes");
  char *np = 0;
  uint32_t d = decode_utf8(&np, buf);
  REACH("returns");
  OBLIGE(d == c, "C11.3 decode_utf8(encode_utf8(c)) == c");
  OBLIGE(np == buf + n, "C11.3 decode_utf8 advances by the encoded length");
}
VERIF_MAIN
