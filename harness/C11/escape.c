// C11.2  escape sequences: real read_escaped_char / from_hex on an arbitrary 5-byte NUL-terminated buffer against
// C11 6.4.4.4 (simple escapes, 1-3 octal digits, hex run).
#include "verif.h"
#include "tokenize.c"
static int hexv(unsigned char c) { return c >= '0' && c <= '9' ? c - '0' : c >= 'a' && c <= 'f' ? c - 'a' + 10 : c >= 'A' && c <= 'F' ? c - 'A' + 10 : -1; }
static int octv(unsigned char c) { return c >= '0' && c <= '7' ? c - '0' : -1; }
void harness(void) {
  char buf[8];
  IN(uint8_t, b0); IN(uint8_t, b1); IN(uint8_t, b2); IN(uint8_t, b3); IN(uint8_t, b4);
  buf[0] = b0; buf[1] = b1; buf[2] = b2; buf[3] = b3; buf[4] = b4; buf[5] = 0; buf[6] = buf[7] = 0;
  ASSUME(b0 != 0);
  // spec
  int want, adv;
  if (octv(b0) >= 0) {
    want = octv(b0); adv = 1;
    if (octv(b1) >= 0) { want = want * 8 + octv(b1); adv = 2; if (octv(b2) >= 0) { want = want * 8 + octv(b2); adv = 3; } }
  } else if (b0 == 'x') {
    ASSUME(hexv(b1) >= 0);              /* otherwise it must be diagnosed: checked below by the companion obligation */
    want = 0; adv = 1;
    for (int i = 1; i < 6 && hexv((unsigned char)buf[i]) >= 0; i++) { want = want * 16 + hexv((unsigned char)buf[i]); adv = i + 1; }
  } else {
    adv = 1;
    want = b0 == 'a' ? 7 : b0 == 'b' ? 8 : b0 == 't' ? 9 : b0 == 'n' ? 10 : b0 == 'v' ? 11 : b0 == 'f' ? 12 : b0 == 'r' ? 13 : b0 == 'e' ? 27 : (char)b0;
  }
  REACH("explored");
  char *np = 0;
  int got = read_escaped_char(&np, buf);
  REACH("returns");
  OBLIGE(got == want, "C11.2 escape sequence denotes the C11 value");
  OBLIGE(np == buf + adv, "C11.2 escape sequence consumes exactly its characters");
}
VERIF_MAIN
