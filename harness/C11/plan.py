from engine.core import Job
META = dict(
    level="proof",
    claim="Literal mechanics proved over their full input domains on the real tokenize.c/unicode.c: UTF-8 encode/decode round trip, length and advance for every code point <= 0x10FFFF; decoder never steps over the terminating NUL and only accepts continuation bytes; every escape sequence of a 5-byte buffer denotes the C11 value and consumes exactly its characters, invalid \\\\x is diagnosed; integer literal suffix grammar and the C11 6.4.4.1p5 typing ladder for all 2^64 values x 4 bases x every suffix string.",
    note="Assumed contract: strtoul returns the scanned value and consumes the digit run (libc). Also: UTF-16/32 string readers transcode every code point of every UTF-8 length (surrogate pairs), and the three in-place source transformers (canonicalize_newline, remove_backslash_newline, convert_universal_chars) equal their spec on every small buffer (bounded). Floating constants take the value of the libc parser of their own type (strtof/strtod/strtold; assumed correctly rounded), i.e. are rounded once. Not covered: \\U universal character names beyond the bounded alphabet, adjacent-literal concatenation, character constants, floating literal rounding (libc strtold).",
    functions=["tokenize.c:read_utf16_string_literal", "tokenize.c:read_utf32_string_literal", "tokenize.c:canonicalize_newline", "tokenize.c:remove_backslash_newline", "tokenize.c:convert_universal_chars", "tokenize.c:read_universal_char", "unicode.c:encode_utf8", "unicode.c:decode_utf8", "tokenize.c:read_escaped_char", "tokenize.c:from_hex", "tokenize.c:convert_pp_int", "tokenize.c:convert_pp_number", "tokenize.c:startswith"],
    trusted_base=["CBMC 6.11", "libc strtoul (assumed contract)", "CBMC's ctype/strncasecmp models"],
    assumptions=["strtoul(p,&end,base) returns an arbitrary value and end = start + digit run"],
)
P = dict(mode="plain", cut=["error", "error_tok", "error_at", "warn_tok", "verror_at"], timeout=300)
TK = dict(cut_defined=["error", "error_tok", "error_at", "warn_tok", "verror_at"])   # tokenize.c defines the error functions itself
def jobs(tier):
    js = [
        Job(name="utf8-roundtrip", src="utf8.c", group="C11.3 UTF-8", sample="encode/decode for every c <= 0x10FFFF", cut_defined=[], **P),
        Job(name="utf8-decode-any", src="utf8dec.c", group="C11.3 UTF-8", sample="decode_utf8 on every 1..4 byte NUL-terminated string", **P),
        Job(name="escape", src="escape.c", group="C11.2 escapes", units=["unicode.c"], sample="read_escaped_char on every 5-byte buffer", unwind=8, **P, **TK),
        Job(name="escape-hexdiag", src="hexdiag.c", group="C11.2 escapes", units=["unicode.c"], sample="\\x followed by a non-hex byte", unwind=8, **P, **TK),
    ]
    for ln in (1, 2, 3, 4):
        for w in (16, 32):
            js.append(Job(name=f"utf{w}-len{ln}", src="utf16.c", group="C11.4 UTF-16/32 readers", defs={"LEN": str(ln), "WIDE": str(w)}, units=["unicode.c", "type.c"], tier=("quick" if (w == 32 or ln in (3, 4)) else "thorough"),
                          unwind=12, sample=f"u\"...\"/U\"...\" literal holding any code point of UTF-8 length {ln}", **P, **TK))
    for fn, nm, alpha, nb in ((0, "canonicalize_newline", '"\\r\\na\\\\"', 7), (1, "remove_backslash_newline", '"\\\\\\na\\r"', 7), (2, "convert_universal_chars", '"\\\\uU0e9\\n"', 8)):
        js.append(Job(name=f"inplace-{nm}", src="inplace.c", group="C11.5 source normalisation", defs={"FN": str(fn), "ALPHABET": "'" + alpha + "'", "NB": str(nb)}, units=["unicode.c", "type.c"],
                      unwind=nb + 18, bounded=f"buffers of at most {nb} bytes over a {len(eval(alpha))}-character alphabet", sample=f"{nm} on every buffer of up to {nb} bytes", **P, **TK))
    for b in (10, 8, 16, 2):
        js.append(Job(name=f"ppint-base{b}", src="ppint.c", group="C11.1 integer literal typing", defs={"BASE": str(b)}, units=["unicode.c"],
                      mode="legacy", replace=["strtoul"], cut=["error", "error_tok", "error_at", "warn_tok", "verror_at"], unwind=8, timeout=300, **TK,
                      replay=None, sample=f"convert_pp_int, base {b}, every suffix string, all 2^64 values"))
    js.append(Job(name="ppnum-float-rounding", src="ppnum.c", group="C11.6 floating constants", units=["unicode.c", "type.c"], redirect={"convert_pp_int": "stub_convert_pp_int"}, unwind=12,
                  sample="convert_pp_number on 1.25 with every suffix, ghost libc parsers", replay=None, **P, **TK))
    return js


def replay_hook(job, key, inputs):
    """ppint counterexamples: render the literal and ask the compiled program for its size/signedness (chibicc vs gcc)"""
    from engine import progreplay
    if not job.name.startswith("ppint"):
        return None
    base = int(job.defs["BASE"])
    v = int(inputs.get("v", "0")) & (2**64 - 1)
    slen = int(inputs.get("slen", "0"))
    suf = "".join(chr(int(inputs.get(f"s{i}", "0"))) for i in range(slen))
    lit = {10: str(v), 8: "0" + oct(v)[2:], 16: hex(v), 2: "0b" + bin(v)[2:]}[base] + suf
    src = ('#include <stdio.h>\nint main(){ printf("%d %d\\n", (int)sizeof(' + lit + '), (' + lit + ' - ' + lit + ' - 1) < 0); return 0; }\n')
    return progreplay.run_both(src, f"literal {lit}")
