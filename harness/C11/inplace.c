// C11.5 / C18.1  in-place source transformers of tokenize.c (canonicalize_newline, remove_backslash_newline,
// convert_universal_chars) on every NUL-terminated buffer of up to NB bytes over a small alphabet, against
// independently written two-buffer specifications.  Bounded (buffer length NB).
#include "verif.h"
#include "tokenize.c"
#ifndef NB
#define NB 8
#endif
static int hexv(unsigned char c) { return c >= '0' && c <= '9' ? c - '0' : c >= 'a' && c <= 'f' ? c - 'a' + 10 : c >= 'A' && c <= 'F' ? c - 'A' + 10 : -1; }
static int spec_utf8(unsigned char *o, uint32_t c) {
  if (c <= 0x7f) { o[0] = c; return 1; }
  if (c <= 0x7ff) { o[0] = 0xc0 | (c >> 6); o[1] = 0x80 | (c & 0x3f); return 2; }
  if (c <= 0xffff) { o[0] = 0xe0 | (c >> 12); o[1] = 0x80 | ((c >> 6) & 0x3f); o[2] = 0x80 | (c & 0x3f); return 3; }
  o[0] = 0xf0 | (c >> 18); o[1] = 0x80 | ((c >> 12) & 0x3f); o[2] = 0x80 | ((c >> 6) & 0x3f); o[3] = 0x80 | (c & 0x3f); return 4;
}
void harness(void) {
  char buf[NB + 16]; unsigned char in[NB + 16], out[NB + 16];
  static const char alpha[] = ALPHABET;
  for (int i = 0; i < NB; i++) { int k = nondet_int_(); ASSUME(0 <= k && k < (int)sizeof(alpha) - 1); buf[i] = alpha[k]; }
  int len = nondet_int_(); ASSUME(1 <= len && len <= NB);
  buf[len - 1] = '\n';                      /* read_file() guarantees the text ends with a newline */
  for (int i = len; i < NB + 16; i++) buf[i] = 0;
  for (int i = 0; i < NB + 16; i++) in[i] = (unsigned char)buf[i];
  int o = 0;
#if FN == 0       /* canonicalize_newline: \r\n and lone \r become \n */
  for (int i = 0; in[i];) { if (in[i] == '\r') { out[o++] = '\n'; i += (in[i + 1] == '\n') ? 2 : 1; } else out[o++] = in[i++]; }
  out[o] = 0;
  canonicalize_newline(buf);
#elif FN == 1     /* remove_backslash_newline: splices removed, one \n re-inserted per splice after the logical line */
  int pending = 0;
  for (int i = 0; in[i];) {
    if (in[i] == '\\' && in[i + 1] == '\n') { pending++; i += 2; }
    else if (in[i] == '\n') { out[o++] = '\n'; i++; while (pending > 0) { out[o++] = '\n'; pending--; } }
    else out[o++] = in[i++];
  }
  while (pending > 0) { out[o++] = '\n'; pending--; }
  out[o] = 0;
  int nl_in = 0, nl_out = 0;
  for (int i = 0; i < NB; i++) if (in[i] == '\n') nl_in++;
  remove_backslash_newline(buf);
  for (int i = 0; i < NB + 4; i++) { if (!buf[i]) break; if (buf[i] == '\n') nl_out++; }
  OBLIGE(nl_in == nl_out, "C18.1 line splicing preserves the number of newline characters (later physical lines keep their numbers)");
#else             /* convert_universal_chars */
  for (int i = 0; in[i];) {
    if (in[i] == '\\') {
      int nd = in[i + 1] == 'u' ? 4 : in[i + 1] == 'U' ? 8 : 0;
      uint32_t c = 0; _Bool ok = nd > 0;
      for (int k = 0; k < 8; k++) if (k < nd) { int h = hexv(in[i + 2 + k]); if (h < 0) ok = 0; else c = (c << 4) | h; }
      if (ok && c != 0) { o += spec_utf8(out + o, c); i += 2 + nd; }
      else { out[o++] = in[i++]; if (in[i]) out[o++] = in[i++]; }      /* a backslash protects the next character */
    } else out[o++] = in[i++];
  }
  out[o] = 0;
  convert_universal_chars(buf);
#endif
  REACH("returns");
  _Bool same = 1;
  for (int i = 0; i < NB + 4; i++) { if (i > o) break; if ((unsigned char)buf[i] != out[i]) same = 0; }
  OBLIGE(same, "C11.5 in-place source transformation equals its specification");
}
int nondet_int_(void);
