// C11.6 / C02.5  floating constants are converted to their OWN type in one step (C11 6.4.4.2p3: the nearest
// representable value of the constant's type; converting through long double first rounds twice): real tokenize.c
// convert_pp_number with the libc parsers as ghosts that return distinct values.  The token's value must be the result
// of the parser for the constant's type: strtof for an f/F suffix, strtod for none, strtold for l/L.
// Stand-in: convert_pp_int (says "not an integer").  Assumed: libc strtof/strtod/strtold round correctly.
#include "verif.h"
#include "tokenize.c"
static float GF; static double GD; static long double GL; static int dl;
bool stub_convert_pp_int(Token *tok) { return 0; }
float strtof(const char *s, char **e) { if (e) *e = (char *)s + dl; return GF; }
double strtod(const char *s, char **e) { if (e) *e = (char *)s + dl; return GD; }
long double strtold(const char *s, char **e) { if (e) *e = (char *)s + dl; return GL; }
float nondet_float_(void); double nondet_double_(void); int nondet_int_(void);
void harness(void) {
  static Type TF, TD, TL; TF = (Type){TY_FLOAT, 4, 4}; TD = (Type){TY_DOUBLE, 8, 8}; TL = (Type){TY_LDOUBLE, 16, 16};
  ty_float = &TF; ty_double = &TD; ty_ldouble = &TL;
  GF = nondet_float_(); GD = nondet_double_(); GL = (long double)nondet_double_();
  ASSUME(GF == GF && GD == GD && GL == GL);
  static char *txt[5] = {"1.25", "1.25f", "1.25F", "1.25l", "1.25L"};
  int k; switch (nondet_int_()) { case 0: k = 0; break; case 1: k = 1; break; case 2: k = 2; break; case 3: k = 3; break; default: k = 4; }
  Token t = {0}; t.kind = TK_PP_NUM; t.loc = txt[k]; t.len = (int)strlen(txt[k]); dl = 4;
  convert_pp_number(&t);
  REACH("returns");
  OBLIGE(t.kind == TK_NUM && t.ty == (k == 0 ? &TD : k <= 2 ? &TF : &TL), "C11.6 the suffix selects the type: none double, f/F float, l/L long double");
  OBLIGE(k == 0 ? t.fval == (long double)GD : k <= 2 ? t.fval == (long double)GF : t.fval == GL, "C11.6 the value is the constant converted directly to its own type (one rounding)");
}
