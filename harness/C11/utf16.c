// C11.4  UTF-16 / UTF-32 string readers on a one-code-point literal: real read_utf16_string_literal /
// read_utf32_string_literal (with the real decoder) for every code point of the UTF-8 length class LEN.
#include "verif.h"
#include "tokenize.c"
static int spec_utf8(unsigned char *o, uint32_t c) {
  if (c <= 0x7f) { o[0] = c; return 1; }
  if (c <= 0x7ff) { o[0] = 0xc0 | (c >> 6); o[1] = 0x80 | (c & 0x3f); return 2; }
  if (c <= 0xffff) { o[0] = 0xe0 | (c >> 12); o[1] = 0x80 | ((c >> 6) & 0x3f); o[2] = 0x80 | (c & 0x3f); return 3; }
  o[0] = 0xf0 | (c >> 18); o[1] = 0x80 | ((c >> 12) & 0x3f); o[2] = 0x80 | ((c >> 6) & 0x3f); o[3] = 0x80 | (c & 0x3f); return 4;
}
void harness(void) {
  IN(uint32_t, c);
  ASSUME(c >= 0x20 && c <= 0x10FFFF && c != '"' && c != '\\' && !(c >= 0xD800 && c <= 0xDFFF));
  ASSUME(LEN == 1 ? c <= 0x7f : LEN == 2 ? (c > 0x7f && c <= 0x7ff) : LEN == 3 ? (c > 0x7ff && c <= 0xffff) : c > 0xffff);
  char src[12] = {0};
  src[0] = 'u'; src[1] = '"';
  int n = spec_utf8((unsigned char *)src + 2, c);
  src[2 + n] = '"'; src[3 + n] = '\n';
  File f = {0}; f.contents = src; current_file = &f;
#if WIDE == 16
  Token *t = read_utf16_string_literal(src, src + 1);
  REACH("returns");
  uint16_t *u = (uint16_t *)t->str;
  if (c < 0x10000) {
    OBLIGE(t->ty->array_len == 2 && u[0] == c && u[1] == 0, "C11.4 a BMP code point is one UTF-16 unit");
  } else {
    uint32_t d = c - 0x10000;
    OBLIGE(t->ty->array_len == 3 && u[0] == 0xD800 + (d >> 10) && u[1] == 0xDC00 + (d & 0x3ff) && u[2] == 0, "C11.4 a supplementary code point is the UTF-16 surrogate pair of Unicode 3.9 table 3-5");
  }
  OBLIGE(t->ty->base->size == 2 && t->kind == TK_STR && t->len == 4 + n - 1, "C11.4 the literal token spans the quotes and has 16-bit elements");
#else
  Token *t = read_utf32_string_literal(src, src + 1, ty_uint);
  REACH("returns");
  uint32_t *u = (uint32_t *)t->str;
  OBLIGE(t->ty->array_len == 2 && u[0] == c && u[1] == 0, "C11.4 a UTF-32 literal element is the code point");
#endif
}
