// C11.1  integer literal typing ladder: real convert_pp_int with strtoul replaced by an assumed contract (returns an
// arbitrary 64-bit value and consumes the digit run), suffix text symbolic over every 0..3 character string of
// {u,U,l,L}.  BASE (10, 8, 16, 2) is concrete per job.  Spec: C11 6.4.4.1p5 with LP64 ranges.
#include "verif.h"
#include "tokenize.c"
uint64_t g_val; int g_digits;
unsigned long strtoul(const char *nptr, char **endptr, int base)
__CPROVER_requires(endptr != 0)
__CPROVER_assigns(*endptr)
__CPROVER_ensures(__CPROVER_return_value == g_val && *endptr == __CPROVER_old(nptr) + g_digits);
static Type TI_ = {TY_INT, 4, 4}, TU_ = {TY_INT, 4, 4, 1}, TL_ = {TY_LONG, 8, 8}, TUL_ = {TY_LONG, 8, 8, 1};
void harness(void) {
  ty_int = &TI_; ty_uint = &TU_; ty_long = &TL_; ty_ulong = &TUL_;
  char buf[12]; int n = 0;
#if BASE == 16
  buf[n++] = '0'; IN(_Bool, upx); buf[n++] = upx ? 'X' : 'x';
#elif BASE == 2
  buf[n++] = '0'; IN(_Bool, upb); buf[n++] = upb ? 'B' : 'b';
#elif BASE == 8
  buf[n++] = '0';
#endif
  int dstart = (BASE == 8) ? 0 : n;
  buf[n++] = '1';
  g_digits = n - dstart;
  IN(int, slen); ASSUME(0 <= slen && slen <= 3);
  IN(uint8_t, s0); IN(uint8_t, s1); IN(uint8_t, s2);
#define SUF(c) ((c) == 'u' || (c) == 'U' || (c) == 'l' || (c) == 'L')
  ASSUME((slen < 1 || SUF(s0)) && (slen < 2 || SUF(s1)) && (slen < 3 || SUF(s2)));
  int sfx = n;
  if (slen >= 1) buf[n++] = s0;
  if (slen >= 2) buf[n++] = s1;
  if (slen >= 3) buf[n++] = s2;
  buf[n] = 0;
  IN(uint64_t, v); g_val = v;
  // spec: suffix grammar of 6.4.4.1: unsigned-suffix [long-suffix | long-long-suffix] in either order; ll same case
#define ISU(c) ((c) == 'u' || (c) == 'U')
#define ISL(c) ((c) == 'l' || (c) == 'L')
  _Bool valid, u = 0, l = 0;
  if (slen == 0) valid = 1;
  else if (slen == 1) { valid = 1; u = ISU(s0); l = ISL(s0); }
  else if (slen == 2) {
    if (ISU(s0) && ISL(s1)) { valid = 1; u = l = 1; }
    else if (ISL(s0) && ISU(s1)) { valid = 1; u = l = 1; }
    else if (ISL(s0) && s0 == s1) { valid = 1; l = 1; }
    else valid = 0;
  } else {
    if (ISU(s0) && ISL(s1) && s1 == s2) { valid = 1; u = l = 1; }
    else if (ISL(s0) && s0 == s1 && ISU(s2)) { valid = 1; u = l = 1; }
    else valid = 0;
  }
  // decimal constants without u that exceed LONG_MAX have no type in C11 (constraint violation): excluded
  if (BASE == 10 && !u) ASSUME(v <= 0x7fffffffffffffffUL);
  int wsize; _Bool wuns;
  if (BASE == 10) {
    if (u) { wuns = 1; wsize = (!l && v <= 0xffffffffUL) ? 4 : 8; }
    else { wuns = 0; wsize = (!l && v <= 0x7fffffffUL) ? 4 : 8; }
  } else {
    if (u) { wuns = 1; wsize = (!l && v <= 0xffffffffUL) ? 4 : 8; }
    else if (l) { wsize = 8; wuns = v > 0x7fffffffffffffffUL; }
    else if (v <= 0x7fffffffUL) { wsize = 4; wuns = 0; }
    else if (v <= 0xffffffffUL) { wsize = 4; wuns = 1; }
    else if (v <= 0x7fffffffffffffffUL) { wsize = 8; wuns = 0; }
    else { wsize = 8; wuns = 1; }
  }
  Token tok = {0}; tok.kind = TK_PP_NUM; tok.loc = buf; tok.len = n;
  REACH("explored");
  _Bool ok = convert_pp_int(&tok);
  REACH("returns");
  if (ok) REACH("accepted constants exist");
  OBLIGE(ok == valid, "C11.1 exactly the C11 integer suffixes are accepted");
  if (ok) {
    OBLIGE(tok.kind == TK_NUM && (uint64_t)tok.val == v, "C11.1 the constant has the scanned value");
    OBLIGE(tok.ty != 0 && tok.ty->size == wsize && (tok.ty->is_unsigned != 0) == wuns && tok.ty->kind == (wsize == 4 ? TY_INT : TY_LONG),
           "C11.1 the constant has the first type of its C11 6.4.4.1p5 list that can represent it");
  }
}
