// C06.1  eightbyte classification: real has_flonum / has_flonum1 / has_flonum2 / struct_regs on aggregates of at most 16
// bytes built from four shape families (flat struct, array of structs, nested struct, scalar array + tail) with
// symbolic leaf types, against psABI 3.2.3: an eightbyte is SSE iff every scalar overlapping it is float/double,
// otherwise INTEGER; an aggregate of 8 bytes or less has one eightbyte.  Bounded by the shape families.
#include "cg_harness.h"
static int ksize(int k) { return k == 0 ? 1 : k == 1 ? 2 : k == 2 ? 4 : k == 3 ? 8 : k == 4 ? 4 : 8; }
// every leaf is its own Type object whose kind/size are symbolic values (a symbolic POINTER into the primitive table
// would keep symex from seeing that a leaf is not an aggregate, and the recursion would not terminate)
static Type LT[8]; static int nlt;
static Type *ktype(int k) { Type *t = &LT[nlt++]; *t = (Type){0}; t->kind = k == 0 ? TY_CHAR : k == 1 ? TY_SHORT : k == 2 ? TY_INT : k == 3 ? TY_LONG : k == 4 ? TY_FLOAT : TY_DOUBLE; t->size = t->align = ksize(k); return t; }
static int rup(int n, int a) { return (n + a - 1) / a * a; }
int nondet_int_(void);
// leaves of the object under test, with absolute offsets (the independent view of the layout)
int LO[8], LK[8], NL;
static void leaf(int off, int k) { LO[NL] = off; LK[NL] = k; NL++; }
void harness(void) {
  cg_init();
  static Type S, E, A; static Member M[4], EM[2];
  int k0 = nondet_int_(), k1 = nondet_int_(), k2 = nondet_int_(), k3 = nondet_int_();
  ASSUME(0 <= k0 && k0 <= 5 && 0 <= k1 && k1 <= 5 && 0 <= k2 && k2 <= 5 && 0 <= k3 && k3 <= 5);
  NL = 0; nlt = 0;
  int size, align;
#if SHAPE == 0      /* struct { L0 a; L1 b; L2 c; L3 d; } with N members */
  int ks[4] = {k0, k1, k2, k3}; const int n = NMEM;   /* member count concrete per job: keeps the member list concrete */
  int off = 0; align = 1;
  for (int i = 0; i < 4; i++) if (i < n) { int s = ksize(ks[i]); off = rup(off, s); M[i] = (Member){0}; M[i].ty = ktype(ks[i]); M[i].offset = off; M[i].next = i + 1 < n ? &M[i + 1] : 0; leaf(off, ks[i]); off += s; if (s > align) align = s; }
  size = rup(off, align); S = (Type){TY_STRUCT, size, align}; S.members = M;
#elif SHAPE == 1    /* struct { struct { L0 x; L1 y; } it[2]; } */
  int s0 = ksize(k0), s1 = ksize(k1); int o1 = rup(s0, s1); int ea = s0 > s1 ? s0 : s1; int es = rup(o1 + s1, ea);
  EM[0] = (Member){0}; EM[0].ty = ktype(k0); EM[0].offset = 0; EM[0].next = &EM[1]; EM[1] = (Member){0}; EM[1].ty = ktype(k1); EM[1].offset = o1;
  E = (Type){TY_STRUCT, es, ea}; E.members = EM;
  A = (Type){TY_ARRAY, 2 * es, ea}; A.base = &E; A.array_len = 2;
  M[0] = (Member){0}; M[0].ty = &A; M[0].offset = 0;
  size = 2 * es; align = ea; S = (Type){TY_STRUCT, size, align}; S.members = M;
  leaf(0, k0); leaf(o1, k1); leaf(es, k0); leaf(es + o1, k1);
#elif SHAPE == 2    /* struct { L0 a; struct { L1 x; L2 y; } in; } */
  int s1 = ksize(k1), s2 = ksize(k2); int o2 = rup(s1, s2); int ea = s1 > s2 ? s1 : s2; int es = rup(o2 + s2, ea);
  EM[0] = (Member){0}; EM[0].ty = ktype(k1); EM[0].offset = 0; EM[0].next = &EM[1]; EM[1] = (Member){0}; EM[1].ty = ktype(k2); EM[1].offset = o2;
  E = (Type){TY_STRUCT, es, ea}; E.members = EM;
  int s0 = ksize(k0); int oin = rup(s0, ea); align = s0 > ea ? s0 : ea;
  M[0] = (Member){0}; M[0].ty = ktype(k0); M[0].offset = 0; M[0].next = &M[1]; M[1] = (Member){0}; M[1].ty = &E; M[1].offset = oin;
  size = rup(oin + es, align); S = (Type){TY_STRUCT, size, align}; S.members = M;
  leaf(0, k0); leaf(oin, k1); leaf(oin + o2, k2);
#else               /* struct { L0 arr[cnt]; L1 t; } */
  int cnt = nondet_int_(); ASSUME(1 <= cnt && cnt <= 3);
  int s0 = ksize(k0), s1 = ksize(k1);
  A = (Type){TY_ARRAY, cnt * s0, s0}; A.base = ktype(k0); A.array_len = cnt;
  int ot = rup(cnt * s0, s1); align = s0 > s1 ? s0 : s1;
  M[0] = (Member){0}; M[0].ty = &A; M[0].offset = 0; M[0].next = &M[1]; M[1] = (Member){0}; M[1].ty = ktype(k1); M[1].offset = ot;
  size = rup(ot + s1, align); S = (Type){TY_STRUCT, size, align}; S.members = M;
  for (int i = 0; i < 3; i++) if (i < cnt) leaf(i * s0, k0);
  leaf(ot, k1);
#endif
  ASSUME(size <= 16);
  // spec: eightbyte j is SSE iff no leaf overlapping [8j, 8j+8) is an integer type
  _Bool sse0 = 1, sse1 = 1;
  for (int i = 0; i < 8; i++) if (i < NL) { _Bool fl = LK[i] >= 4; int lo = LO[i], hi = LO[i] + ksize(LK[i]); if (lo < 8 && hi > 0 && !fl) sse0 = 0; if (lo < 16 && hi > 8 && !fl) sse1 = 0; }
  _Bool r0 = has_flonum1(&S), r1 = has_flonum2(&S);
  int ngp = -1, nfp = -1;
  struct_regs(&S, &ngp, &nfp);
  REACH("returns");
  OBLIGE(r0 == sse0, "C06.1 the first eightbyte is SSE iff every scalar in it is float/double");
  OBLIGE(size <= 8 || r1 == sse1, "C06.1 the second eightbyte is SSE iff every scalar in it is float/double");
  OBLIGE(nfp == sse0 + (size > 8 && sse1) && ngp == !sse0 + (size > 8 && !sse1), "C06.1 one register per eightbyte: XMM for SSE, general for INTEGER; no second eightbyte for 8 bytes or less");
}
