// C06.6  small-aggregate return, both sides: real copy_struct_reg (callee: object -> rax/rdx/xmm0/xmm1) and
// copy_ret_buffer (caller: registers -> return buffer) for a struct of class pair CLS (letters of spec/psabi_call.h:
// p q r s t u), all contents symbolic.  psABI 3.2.3: the same classification as for arguments; INTEGER eightbytes in
// rax then rdx, SSE eightbytes in xmm0 then xmm1.
#include "cg_harness.h"
static Type TS; static Member Mb[2];
uint64_t nondet_u64_(void);
void harness(void) {
  cg_init();
  const char k = CLS;
  int n = (k == 'p' || k == 'q') ? 1 : 2;
  _Bool f0 = (k == 'q' || k == 's' || k == 'u'), f1 = (k == 's' || k == 't');
  TS = (Type){TY_STRUCT, 8 * n, 8};
  for (int i = 0; i < n; i++) { Mb[i] = (Member){0}; Mb[i].ty = (i == 0 ? f0 : f1) ? &CGT[TI_DOUBLE] : &CGT[TI_LONG]; Mb[i].offset = 8 * i; Mb[i].align = 8; Mb[i].next = i + 1 < n ? &Mb[i + 1] : 0; }
  TS.members = Mb;
  uint64_t w0 = nondet_u64_(), w1 = nondet_u64_();
  // where the psABI returns the two eightbytes
  int r0 = f0 ? 100 : 0, r1 = f1 ? (f0 ? 101 : 100) : (f0 ? 0 : 1);    /* 0 rax, 1 rdx, 100 xmm0, 101 xmm1 */
  CG_ENTRY_STATE(1);
#if SIDE == 0
  // callee: rax holds the address of the object to return
  Obj fn = {0}; Type FT = {TY_FUNC, 1, 1}; FT.return_ty = &TS; fn.ty = &FT; fn.name = "f"; current_fn = &fn;
  uint64_t off = 64;
  for (int b = 0; b < 8; b++) { gm_dm[off + b] = (unsigned char)(w0 >> (8 * b)); gm_dm[off + 8 + b] = (unsigned char)(w1 >> (8 * b)); }
  m.r[RAX] = GM_DM_BASE + off;
  copy_struct_reg();
  REACH("returns");
  OBLIGE(!m.unknown && !m.bad && m.sp == 1, "C06.6 return sequence understood, stack untouched");
  OBLIGE(r0 == 100 ? m.xmm[0] == w0 : m.r[RAX] == w0, "C06.6 callee: first eightbyte returned in rax (INTEGER) or xmm0 (SSE)");
  if (n == 2) OBLIGE(r1 == 100 ? m.xmm[0] == w1 : r1 == 101 ? m.xmm[1] == w1 : r1 == 0 ? m.r[RAX] == w1 : m.r[RDX] == w1, "C06.6 callee: second eightbyte returned in the next register of its class");
#else
  // caller: registers as the callee left them; the return buffer is a local
  Obj buf = {0}; buf.ty = &TS; buf.offset = -32; buf.is_local = 1;
  if (r0 == 100) m.xmm[0] = w0; else m.r[RAX] = w0;
  if (n == 2) { if (r1 == 100) m.xmm[0] = w1; else if (r1 == 101) m.xmm[1] = w1; else if (r1 == 0) m.r[RAX] = w1; else m.r[RDX] = w1; }
  copy_ret_buffer(&buf);
  REACH("returns");
  uint64_t g0 = 0, g1 = 0;
  for (int b = 0; b < 8; b++) { g0 |= (uint64_t)gm_dm[(GM_RBP - GM_DM_BASE) - 32 + b] << (8 * b); g1 |= (uint64_t)gm_dm[(GM_RBP - GM_DM_BASE) - 24 + b] << (8 * b); }
  OBLIGE(!m.unknown && !m.bad && m.sp == 1, "C06.6 return sequence understood, stack untouched");
  OBLIGE(g0 == w0, "C06.6 caller: first eightbyte stored from rax/xmm0");
  if (n == 2) OBLIGE(g1 == w1, "C06.6 caller: second eightbyte stored from the next register of its class");
#endif
}
