from engine.core import Job
CG = dict(units=["type.c"], mode="dfcc", enforce="gen_expr", rec=True, replace=["gen_stmt"], cut=["error", "error_tok", "error_at", "warn_tok"],
          no_checks=["signed-overflow", "undefined-shift"], timeout=600)
META = dict(
    level="other",
    claim="Caller side of the System V calling convention, per signature: the real gen_expr(ND_FUNCALL) (push_args, push_args2, push_struct, has_flonum, register loading loop, alignment padding) is executed on the ghost machine and, at the emitted call instruction, every argument is where psABI 3.2.3 places it (general/vector register by eightbyte class, memory arguments in order at rsp), %al counts the vector registers, rsp is 16-byte aligned, and afterwards the stack is restored. Argument values and struct contents are symbolic (proof per signature); the set of signatures is a chosen list that exhausts the general and vector registers with scalars and all six small-aggregate classes, so the quantifier over signatures is bounded.",
    note="Trusted: CBMC, ghost machine, spec/psabi_call.h. Also: callee side (assign_lvar_offsets + the emit_text prologue stores: every parameter's home receives the register/stack slot the psABI assigns, per signature), aggregate returns <= 16 bytes (copy_ret_buffer / copy_struct_reg per class) and > 16 bytes (copy_struct_mem), has_flonum eightbyte classification on four shape families. For variadic callees the prologue's va_list is checked in a slot-size independent way: the register save area holds every argument register and gp_offset/fp_offset designate the saved copy of the first unnamed register of each class (scalar named parameters). Not covered: va_arg itself (include/stdarg.h), named aggregate or memory parameters of variadic functions, the layout of the save area against the psABI (chibicc uses 8-byte vector slots: a va_list handed to libc is wrong - seen, not repaired), narrow return value normalisation. Known finding F06c: long double (16-byte aligned) memory arguments are not aligned.",
    functions=["codegen.c:gen_expr", "codegen.c:push_args", "codegen.c:push_args2", "codegen.c:push_struct", "codegen.c:has_flonum", "codegen.c:struct_regs", "codegen.c:has_flonum1", "codegen.c:has_flonum2", "codegen.c:popf", "codegen.c:pop", "codegen.c:pushf", "codegen.c:push", "codegen.c:assign_lvar_offsets", "codegen.c:emit_text", "codegen.c:store_gp", "codegen.c:store_fp", "codegen.c:copy_struct_reg", "codegen.c:copy_ret_buffer"],
    trusted_base=["CBMC 6.11", "spec/x86_ghost.h", "spec/psabi_call.h"],
    assumptions=["argument expressions are abstract (their values/addresses symbolic)", "the callee clobbers caller-saved registers only"],
    explanation="per-signature proofs over a chosen signature list (bounded in the signature quantifier)",
)
SIGS = ["", "l", "il", "n", "in", "i", "d", "f", "iiiiii", "iiiiiii", "dddddddd", "ddddddddd", "idid", "p", "q", "r", "s", "t", "u", "m",
        "iiiiip", "iiiiipi", "iiiiir", "iiiir", "dddddddq", "iiiiit", "iiiiiiu",
        "iiiiiid", "ddddddddi", "iiiiiiiqd"]
# Caller-side signatures that were tried and taken out: "ddddddds", "dddddds", "ddddddddt", "pqpq", "mi", "iiiiiim", "rst" run out of
# memory (10 GB) in the solver since the contracts carry the x87-preservation clauses; "ddddddddi" with a word already pushed
# exceeds the model's event table (precondition of the child contract), so only its sp0 variant is run.
# the caller-side jobs with many floating or aggregate arguments need several GB each: the thorough tier (62 of them) runs 8 at a time
MAX_PARALLEL = {"thorough": 8}
def jobs(tier):
    js = []
    for sg in SIGS:
        for sp0 in ((0,) if sg == "ddddddddi" else (0, 1)):
            quick = (sp0 == 0 and sg in ("iiiiiii", "ddddddddd", "iiiiip", "dddddddq", "iiiiit", "iiiir", "l", "il", "n", "iiiiiiiqd")) or (sp0 == 1 and sg in ("iiiiiii", "m"))
            js.append(Job(name=f"call-{sg or 'void'}-sp{sp0}", src="call.c", group="C06 caller", defs={"SIG": '\'"%s"\'' % sg, "SP0": str(sp0)},
                          tier="quick" if quick else "thorough", bounded="chosen signature list (values symbolic)",
                          sample=f"call with argument classes '{sg}', {sp0} word(s) already pushed", **CG))
    PL = dict(units=["type.c"], mode="plain", cut=["error", "error_tok", "error_at", "warn_tok"], no_checks=["signed-overflow", "undefined-shift"], timeout=600, replay=None)
    for sg in ["", "i", "d", "f", "iiiiii", "iiiiiii", "dddddddd", "ddddddddd", "p", "q", "r", "s", "t", "u", "m", "iiiiip", "iiiiipi", "iiiiir", "iiiiiri", "dddddddsd", "dddddddq", "iiiiit", "iiiiiiu", "pqpq", "idrt", "iiiiiim", "iiiiiiiqd"]:   # (nine doubles + a struct would need 10 abstract arguments: the ghost child table holds 10 nodes incl. the callee)
        js.append(Job(name=f"callee-{sg or 'void'}", src="callee.c", group="C06 callee", defs={"SIG": '\'"%s"\'' % sg}, bounded="chosen signature list (values symbolic)",
                      sample=f"function with parameter classes '{sg}': homes and register spill", **PL))
    for shp, nm in ((0, 1), (0, 2), (0, 3), (0, 4), (1, 0), (2, 0), (3, 0)):
        js.append(Job(name=f"flonum-shape{shp}" + (f"-n{nm}" if nm else ""), src="flonum.c", group="C06.1 eightbyte classification", defs={"SHAPE": str(shp), "NMEM": str(nm)}, unwindset=["has_flonum.0:6", "has_flonum.1:5"],
                      bounded="four aggregate shape families, at most 16 bytes", sample=f"has_flonum/struct_regs on shape family {shp} with symbolic leaf types", **PL))
    for cls in "pqrstu":
        for side in (0, 1):
            js.append(Job(name=f"ret-{cls}-{'caller' if side else 'callee'}", src="ret.c", group="C06 aggregate return", defs={"CLS": "\"'%s'\"" % cls, "SIDE": str(side)},
                          sample=f"struct of class '{cls}' returned in registers, {'caller' if side else 'callee'} side", **PL))
    js.append(Job(name="call-iiiiiiil-sp0", src="call.c", group="C06 caller", defs={"SIG": '\'"iiiiiiil"\'', "SP0": "0", "LDOUBLE_ALIGN": ""},
                  bounded="chosen signature list (values symbolic)", sample="long double memory argument after an odd number of stack words", **CG))
    for sg in ("i", "d", "id", "dd", "ii"):
        js.append(Job(name=f"callee-variadic-{sg}", src="callee.c", group="C06 callee", defs={"SIG": '\'"%s"\'' % sg, "VARIADIC": "1", "GM_STK": "28"}, bounded="chosen signature list (values symbolic)",
                      sample=f"prologue of a variadic function with named parameters '{sg}': the va_list designates the first unnamed argument registers", **PL))
    return js
