// C06.4/.5 (+C04.5)  callee side: real assign_lvar_offsets + emit_text (prologue, register spill, store_gp/store_fp) for a
// function whose parameter list SIG is concrete per job (letters as in spec/psabi_call.h).  The machine is entered in
// the state the psABI prescribes for the caller (argument registers / memory arguments above the return address, all
// values symbolic); after the prologue every parameter's home in the frame must hold the value passed, memory-class
// parameters must be found where the caller put them, homes must be disjoint, aligned and inside the frame.
// Plain harness (no recursion: the body is an empty block).
#include "cg_harness.h"
#include "psabi_call.h"
#ifndef SIG
#define SIG "iid"
#endif
#define NA ((int)sizeof(SIG) - 1)
static int gpreg(int k) { return k == 0 ? RDI : k == 1 ? RSI : k == 2 ? RDX : k == 3 ? RCX : k == 4 ? R8 : R9; }
static Type TSp, TSq, TSr, TSs, TSt, TSu, TSm; static Member Mb[16];
static Type *mk(Type *t, int size, int n, int k0, int k1, int k2, Member *mm) {
  *t = (Type){TY_STRUCT, size, 8};
  int ks[3] = {k0, k1, k2};
  for (int i = 0; i < n; i++) { mm[i] = (Member){0}; mm[i].ty = ks[i] ? &CGT[TI_DOUBLE] : &CGT[TI_LONG]; mm[i].offset = 8 * i; mm[i].align = 8; mm[i].next = i + 1 < n ? &mm[i + 1] : 0; }
  t->members = mm; return t;
}
uint64_t nondet_u64_(void);
static uint64_t dm64(long off) { uint64_t v = 0; for (int b = 0; b < 8; b++) v |= (uint64_t)gm_dm[(GM_RBP - GM_DM_BASE) + off + b] << (8 * b); return v; }
void harness(void) {
  cg_init();
  static Obj P[10]; Obj AB = {0}, fn = {0}; Node body = {0}; Type FT = {TY_FUNC, 1, 1};
  SpecArg SA[10]; SpecAbi ST = {0, 0, 0}; uint64_t W[10][3];
  mk(&TSp, 8, 1, 0, 0, 0, &Mb[0]); mk(&TSq, 8, 1, 1, 0, 0, &Mb[1]); mk(&TSr, 16, 2, 0, 0, 0, &Mb[2]); mk(&TSs, 16, 2, 1, 1, 0, &Mb[4]);
  mk(&TSt, 16, 2, 0, 1, 0, &Mb[6]); mk(&TSu, 16, 2, 1, 0, 0, &Mb[8]); mk(&TSm, 24, 3, 0, 0, 0, &Mb[10]);
  CG_ENTRY_STATE(1);                       /* the return address is on the stack */
#ifdef VARIADIC
  // a variadic callee: every argument register may carry an unnamed argument
  uint64_t G[6], X[8];
  for (int k = 0; k < 6; k++) { G[k] = nondet_u64_(); m.r[gpreg(k)] = G[k]; }
  for (int k = 0; k < 8; k++) { X[k] = nondet_u64_(); m.xmm[k] = X[k]; }
#endif
  for (int i = 0; i < 10; i++) if (i < NA) {
    char k = SIG[i];
    Type *t = k == 'i' ? &CGT[TI_LONG] : k == 'd' ? &CGT[TI_DOUBLE] : k == 'f' ? &CGT[TI_FLOAT] :
              k == 'p' ? &TSp : k == 'q' ? &TSq : k == 'r' ? &TSr : k == 's' ? &TSs : k == 't' ? &TSt : k == 'u' ? &TSu : &TSm;
    P[i] = (Obj){0}; P[i].name = "p"; P[i].ty = t; P[i].align = t->align; P[i].is_local = 1; P[i].next = i + 1 < NA ? &P[i + 1] : 0;
    spec_abi_arg(&ST, k, &SA[i]);
    for (int w = 0; w < 3; w++) W[i][w] = nondet_u64_();
    if (SA[i].where == 0) {
      if (SA[i].r0 >= 100) m.xmm[SA[i].r0 - 100] = W[i][0]; else m.r[gpreg(SA[i].r0)] = W[i][0];
      if (SA[i].r1 >= 100) m.xmm[SA[i].r1 - 100] = W[i][1]; else if (SA[i].r1 >= 0) m.r[gpreg(SA[i].r1)] = W[i][1];
    } else {
      for (int w = 0; w < 3; w++) if (w < SA[i].size / 8) for (int b = 0; b < 8; b++) gm_dm[(GM_RBP - GM_DM_BASE) + 16 + SA[i].mem_off + 8 * w + b] = (unsigned char)(W[i][w] >> (8 * b));
    }
  }
  AB.name = "__alloca_size__"; AB.ty = &CGT[TI_PTR]; AB.align = 8; AB.is_local = 1; AB.next = NA ? &P[0] : 0;
#ifdef VARIADIC
  static Obj VA; static Type VAT; VAT = (Type){TY_ARRAY, 136, 1}; VAT.base = &CGT[TI_CHAR]; VAT.array_len = 136;
  VA = (Obj){0}; VA.name = "__va_area__"; VA.ty = &VAT; VA.align = 1; VA.is_local = 1; VA.next = NA ? &P[0] : 0; AB.next = &VA;
#endif
  body.kind = ND_BLOCK; body.tok = &cg_tok; body.body = 0;
  FT.return_ty = &CGT[TI_INT];
  fn.name = "f"; fn.is_function = 1; fn.is_definition = 1; fn.is_live = 1; fn.ty = &FT; fn.params = NA ? &P[0] : 0; fn.locals = &AB; fn.alloca_bottom = &AB; fn.body = &body; fn.next = 0;
#ifdef VARIADIC
  FT.is_variadic = 1; fn.va_area = &VA;
#endif
  depth = 0; cg_depth_base = 1;
  assign_lvar_offsets(&fn);
  emit_text(&fn);
  REACH("returns");
  OBLIGE(!m.unknown && !m.bad, "C06.5 prologue/epilogue text understood; no machine fault");
  OBLIGE(fn.stack_size % 16 == 0 && fn.stack_size >= 8, "C04.5 the frame size is a multiple of 16");
  for (int i = 0; i < 10; i++) if (i < NA) {
    char k = SIG[i]; int sz = P[i].ty->size; int off = P[i].offset;
    if (SA[i].where == 1) {
      OBLIGE(off == 16 + SA[i].mem_off, "C06.4 a memory-class parameter is read from its psABI position above the return address");
    } else {
      OBLIGE(off < 0 && -off <= fn.stack_size && off % P[i].align == 0 && off + sz <= 0, "C04.5 a register parameter's home lies inside the frame and is aligned");
      OBLIGE(k == 'f' ? (uint32_t)dm64(off) == (uint32_t)W[i][0] : dm64(off) == W[i][0], "C06.5 the first eightbyte of a register parameter is spilled to its home from the register the psABI assigns");
      if (sz > 8) OBLIGE(dm64(off + 8) == W[i][1], "C06.5 the second eightbyte is spilled from the next register of its class");
      for (int j = 0; j < i; j++) if (SA[j].where == 0) OBLIGE(P[j].offset + P[j].ty->size <= off || off + sz <= P[j].offset, "C04.5 parameter homes do not overlap");
      OBLIGE(AB.offset + 8 <= off || off + sz <= AB.offset, "C04.5 parameter homes do not overlap the frame's bookkeeping slot");
    }
  }
#ifdef VARIADIC
  // C06.6  the va_list the prologue builds (psABI 3.5.7): the register save area holds every argument register, and
  // gp_offset / fp_offset designate, inside it, the slot of the FIRST UNNAMED argument register of each class - whatever
  // slot size the implementation uses.  (Named parameters here are scalars in registers.)
  int ngp = 0, nfp = 0; for (int i = 0; i < NA; i++) { if (SIG[i] == 'i') ngp++; else nfp++; }
  long vo = VA.offset;
  uint32_t gpo = (uint32_t)dm64(vo), fpo = (uint32_t)dm64(vo + 4); uint64_t ovf = dm64(vo + 8), rsa = dm64(vo + 16);
  OBLIGE(rsa >= GM_DM_BASE && rsa + 136 <= GM_RBP + 64 && (long)(rsa - GM_RBP) >= vo && (long)(rsa - GM_RBP) < vo + 136, "C06.6 reg_save_area points into the function's own save area");
  long r0 = (long)(rsa - GM_RBP);
  OBLIGE(ngp >= 6 || (gpo <= 40 && dm64(r0 + gpo) == G[ngp]), "C06.6 gp_offset designates the saved copy of the first unnamed general-purpose argument register");
  OBLIGE(nfp >= 8 || (fpo >= 48 && fpo <= 176 && dm64(r0 + fpo) == X[nfp]), "C06.6 fp_offset designates the saved copy of the first unnamed vector argument register");
  OBLIGE(ovf == GM_RBP + 16, "C06.6 overflow_arg_area points at the first stack argument (no named argument is passed in memory here)");
#endif
}
