// C06.2/.3/.7  caller side of a call: real gen_expr(ND_FUNCALL) -> push_args/push_args2/push_struct + the register
// loading loop, on the ghost machine.  The argument list SIG is concrete per job (one letter per argument, see
// spec/psabi_call.h); argument values / struct contents are symbolic.  At the emitted `call` the machine state is
// compared with the psABI placement: registers, memory arguments, %al, 16-byte stack alignment.
#define CG_OWN_CALL_HOOK
#include "cg_harness.h"
#ifndef RETTY
#define RETTY TI_INT
#endif
#include "psabi_call.h"
#ifndef SIG
#define SIG "iid"
#endif
#define NA ((int)sizeof(SIG) - 1)
static int gpreg(int k) { return k == 0 ? RDI : k == 1 ? RSI : k == 2 ? RDX : k == 3 ? RCX : k == 4 ? R8 : R9; }
SpecArg SA[10]; SpecAbi ST; uint64_t AV[10]; uint64_t SB[10][3]; int sp_at_entry; uint64_t FNV;
static Type TSp, TSq, TSr, TSs, TSt, TSu, TSm, TSn; static Member Mb[16]; static Member Mn[5];
static Type *mk(Type *t, int size, int n, int k0, int k1, int k2, Member *mm) {
  *t = (Type){TY_STRUCT, size, 8};
  int ks[3] = {k0, k1, k2};
  for (int i = 0; i < n; i++) { mm[i] = (Member){0}; mm[i].ty = ks[i] ? &CGT[TI_DOUBLE] : &CGT[TI_LONG]; mm[i].offset = 8 * i; mm[i].align = 8; mm[i].next = i + 1 < n ? &mm[i + 1] : 0; }
  t->members = mm; return t;
}
static uint64_t stack_word(int byte_off) { int slot = m.sp - 1 - byte_off / 8; return slot >= 0 && slot < GM_STK ? gm_stk[slot] : 0; }
void gm_call_hook(void) {
  // the state the callee sees
  m.call_seen++;
  int nmem_words = (ST.mem + 7) / 8;
  OBLIGE(m.r[R10] == FNV, "C06 the call goes to the function designator's value");
  OBLIGE((m.sp % 2) == 0, "C06.7 rsp is 16-byte aligned at the call instruction");      /* entry state: rsp 16-aligned with sp == 0 (mod 2) */
  OBLIGE((m.r[RAX] & 0xff) == (uint64_t)ST.fp, "C06.3 %al holds the number of vector registers used");
  for (int i = 0; i < 10; i++) if (i < NA) {
    char k = SIG[i];
    if (SA[i].where == 0) {
      uint64_t w0 = (k == 'i' || k == 'd' || k == 'f') ? AV[i] : SB[i][0], w1 = SB[i][1];
      if (SA[i].r0 >= 100) OBLIGE(k == 'f' ? (uint32_t)m.xmm[SA[i].r0 - 100] == (uint32_t)w0 : m.xmm[SA[i].r0 - 100] == w0, "C06.3 first eightbyte of an SSE-class argument is in the xmm register the psABI assigns");
      else OBLIGE(m.r[gpreg(SA[i].r0)] == w0, "C06.3 first eightbyte of an INTEGER-class argument is in the general register the psABI assigns");
      if (SA[i].r1 >= 100) OBLIGE(m.xmm[SA[i].r1 - 100] == w1, "C06.3 second eightbyte (SSE) is in the next xmm register");
      else if (SA[i].r1 >= 0) OBLIGE(m.r[gpreg(SA[i].r1)] == w1, "C06.3 second eightbyte (INTEGER) is in the next general register");
    } else if (k == 'l') {
      OBLIGE(stack_word(SA[i].mem_off) == AV[i], "C06.2 a long double memory argument is at its 16-byte aligned psABI offset from rsp");
    } else {
      int words = (SA[i].size + 7) / 8;
      for (int w = 0; w < 3; w++) if (w < words && !(k == 'n' && w == 2))
        OBLIGE(stack_word(SA[i].mem_off + 8 * w) == ((k == 'i' || k == 'd') ? AV[i] : k == 'f' ? ((stack_word(SA[i].mem_off) & ~0xffffffffUL) | (uint32_t)AV[i]) : SB[i][w]),
               "C06.2 a memory-class argument is at its psABI offset from rsp, in argument order");
    }
  }
  OBLIGE(m.sp - sp_at_entry >= nmem_words && m.sp - sp_at_entry <= nmem_words + 1, "C06.2 the argument area is exactly the memory-class arguments plus at most one alignment word");
  GM nd; m.r[RAX] = nd.r[RAX]; m.r[RCX] = nd.r[RCX]; m.r[RDX] = nd.r[RDX]; m.r[RSI] = nd.r[RSI]; m.r[RDI] = nd.r[RDI];
  m.r[R8] = nd.r[R8]; m.r[R9] = nd.r[R9]; m.r[R10] = nd.r[R10]; m.r[R11] = nd.r[R11];
  for (int i = 0; i < 8; i++) m.xmm[i] = nd.xmm[i];
  m.flags_valid = 0;
}
void harness(void) {
  cg_init();
  Node fnn = {0}, n = {0}; static Node A[10]; Type FT = {TY_FUNC, 1, 1}; Obj fobj = {0};
  mk(&TSp, 8, 1, 0, 0, 0, &Mb[0]); mk(&TSq, 8, 1, 1, 0, 0, &Mb[1]); mk(&TSr, 16, 2, 0, 0, 0, &Mb[2]); mk(&TSs, 16, 2, 1, 1, 0, &Mb[4]);
  mk(&TSt, 16, 2, 0, 1, 0, &Mb[6]); mk(&TSu, 16, 2, 1, 0, 0, &Mb[8]); mk(&TSm, 24, 3, 0, 0, 0, &Mb[10]);
  TSn = (Type){TY_STRUCT, 20, 4}; for (int i = 0; i < 5; i++) { Mn[i] = (Member){0}; Mn[i].ty = &CGT[TI_INT]; Mn[i].offset = 4 * i; Mn[i].align = 4; Mn[i].next = i < 4 ? &Mn[i + 1] : 0; } TSn.members = Mn;
  FT.return_ty = &CGT[RETTY]; FT.is_variadic = 0;       /* the callee's return type: narrow results are normalised after the call */
  cg_node(&fnn, ND_NULL_EXPR, &CGT[TI_PTR]);
  IN(uint64_t, fnv); FNV = fnv;
  cg_child[0] = &fnn; cg_val[0] = fnv;
  ST = (SpecAbi){0, 0, 0};
  CG_ENTRY_STATE(SP0);
  for (int i = 0; i < 10; i++) if (i < NA) {
    char k = SIG[i];
    Type *t = k == 'i' ? &CGT[TI_LONG] : k == 'd' ? &CGT[TI_DOUBLE] : k == 'f' ? &CGT[TI_FLOAT] : k == 'l' ? &CGT[TI_LDOUBLE] :
              k == 'p' ? &TSp : k == 'q' ? &TSq : k == 'r' ? &TSr : k == 's' ? &TSs : k == 't' ? &TSt : k == 'u' ? &TSu : k == 'n' ? &TSn : &TSm;
    A[i] = (Node){0}; cg_node(&A[i], ND_NULL_EXPR, t); A[i].next = i + 1 < NA ? &A[i + 1] : 0;
    spec_abi_arg(&ST, k, &SA[i]);
    uint64_t v = nondet_u64_();
    if (t->kind == TY_STRUCT) {            /* the argument expression yields the struct's address; contents symbolic */
      uint64_t off = 8 + 24 * (i % 7);     /* distinct objects in data memory (at most 7 aggregates per job) */
      v = GM_DM_BASE + off;
      for (int w = 0; w < 3; w++) { SB[i][w] = 0; for (int b = 0; b < 8; b++) SB[i][w] |= (uint64_t)gm_dm[off + 8 * w + b] << (8 * b); }
    }
    AV[i] = v; cg_child[1 + (i % 9)] = &A[i]; cg_val[1 + (i % 9)] = v;
  }
  cg_node(&n, ND_FUNCALL, &CGT[RETTY]); n.lhs = &fnn; n.func_ty = &FT; n.args = NA ? &A[0] : 0; cg_root = &n; cg_check_val = 0;
  sp_at_entry = m.sp; m.call_seen = 0; cg_extra = A;
  (void)verif_val(0); (void)cg_holds(&CGT[TI_INT], 0); (void)cg_x87_delta(&CGT[TI_INT]);
  gen_expr(&n);
  REACH("gen_expr returns");
  OBLIGE(m.call_seen == 1, "C06 exactly one call instruction is emitted");
}
uint64_t nondet_u64_(void);
