#include "/repo/parse.c"
Node *gk[2]; int64_t gv[3];
int64_t verif_val(Node *n) { return n == gk[0] ? gv[0] : n == gk[1] ? gv[1] : gv[2]; }
/* canonical representative of a value in an integer type */
_Bool canon(Type *ty, int64_t v) {
  if (ty->size == 8) return 1;
  if (ty->size == 4) return ty->is_unsigned ? v == (int64_t)(uint32_t)v : v == (int64_t)(int32_t)v;
  if (ty->size == 2) return ty->is_unsigned ? v == (int64_t)(uint16_t)v : v == (int64_t)(int16_t)v;
  return ty->is_unsigned ? v == (int64_t)(uint8_t)v : v == (int64_t)(int8_t)v;
}
static int64_t eval2(Node *node, char ***label)
__CPROVER_requires(node != 0 && node->ty != 0)
__CPROVER_assigns()
__CPROVER_ensures(__CPROVER_return_value == verif_val(node))
;
void harness(void) {
  Token tok = {0};
  Type TS = {0}, TD = {0};
  _Bool su, du; int ss, ds;
  __CPROVER_assume((ss == 1 || ss == 2 || ss == 4 || ss == 8) && (ds == 1 || ds == 2 || ds == 4 || ds == 8));
  TS.kind = ss == 1 ? TY_CHAR : ss == 2 ? TY_SHORT : ss == 4 ? TY_INT : TY_LONG; TS.size = TS.align = ss; TS.is_unsigned = su;
  TD.kind = ds == 1 ? TY_CHAR : ds == 2 ? TY_SHORT : ds == 4 ? TY_INT : TY_LONG; TD.size = TD.align = ds; TD.is_unsigned = du;
  Node c = {0}, n = {0};
  c.ty = &TS; c.tok = &tok;
  n.kind = ND_CAST; n.lhs = &c; n.ty = &TD; n.tok = &tok;
  gk[0] = &c; gk[1] = 0;
  __CPROVER_assume(canon(&TS, gv[0]));
  /* C11 6.3.1.3: convert value to destination type (modulo 2^N, or implementation-defined wrap for signed) */
  int64_t v = gv[0], r;
  if (ds == 8) r = v;
  else if (ds == 4) r = du ? (int64_t)(uint32_t)v : (int64_t)(int32_t)v;
  else if (ds == 2) r = du ? (int64_t)(uint16_t)v : (int64_t)(int16_t)v;
  else r = du ? (int64_t)(uint8_t)v : (int64_t)(int8_t)v;
  gv[2] = r;
  (void)verif_val(0);
  eval2(&n, 0);
}
