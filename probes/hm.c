#include "/repo/hashmap.c"
#define CAP 4
#define NK 3
/* key pool: three distinct 1-byte keys; hash of each key arbitrary (ghost) */
static char pool[NK][2] = {"a","b","c"};
uint64_t ghash[NK];
static int kid(char *k) { return k[0]=='a' ? 0 : k[0]=='b' ? 1 : 2; }
static uint64_t fnv_hash(char *s, int len)
__CPROVER_requires(len == 1)
__CPROVER_assigns()
__CPROVER_ensures(__CPROVER_return_value == ghash[kid(s)]);
HashEntry B[CAP]; HashMap M;
static _Bool live(HashEntry *e) { return e->key && e->key != TOMBSTONE; }
/* abstract view: index of the live slot holding key id, or -1 */
static int slot_of(int id) { for (int i = 0; i < CAP; i++) if (live(&B[i]) && kid(B[i].key) == id) return i; return -1; }
static _Bool wf(void) {
  int used = 0;
  for (int i = 0; i < CAP; i++) {
    if (B[i].key) used++;
    if (live(&B[i])) {
      if (B[i].keylen != 1) return 0;
      int id = kid(B[i].key);
      if (B[i].key != pool[id]) return 0;
      for (int j = 0; j < i; j++) if (live(&B[j]) && kid(B[j].key) == id) return 0;   /* no duplicate live key */
      /* reachable from home slot without crossing NULL */
      for (int d = 0; d < CAP; d++) { int p = (ghash[id] + d) % CAP; if (p == i) break; if (!B[p].key) return 0; }
    }
  }
  return M.buckets == B && M.capacity == CAP && M.used == used && used < CAP;
}
void harness(void) {
  for (int i = 0; i < CAP; i++) { int c; B[i].key = c == 0 ? 0 : c == 1 ? (char*)TOMBSTONE : c == 2 ? pool[0] : c == 3 ? pool[1] : pool[2]; B[i].keylen = 1; }
  M.buckets = B; M.capacity = CAP; { int u; M.used = u; }
  __CPROVER_assume(wf());
  __CPROVER_assume((M.used * 100) / M.capacity < 70);   /* no rehash in this obligation */
  int id; __CPROVER_assume(0 <= id && id < NK);
  int other; __CPROVER_assume(0 <= other && other < NK && other != id);
  int so = slot_of(other); void *vo = so >= 0 ? B[so].val : 0;
  void *v; 
  hashmap_put2(&M, pool[id], 1, v);
  __CPROVER_assert(wf(), "put preserves WF (no duplicate keys, probe chains intact, used exact)");
  __CPROVER_assert(hashmap_get2(&M, pool[id], 1) == v || v == 0, "get after put returns the value");
  int so2 = slot_of(other);
  __CPROVER_assert((so >= 0) == (so2 >= 0) && (so < 0 || B[so2].val == vo), "other keys unchanged");
}
