#include "/repo/chibicc.h"
typedef struct { uint64_t rax, rdi, rdx, rcx; uint64_t stk[8]; int sp; int unknown; } M;
M m;
void verif_emit(const char *fmt, char *s0, long i0, char *s1, long i1, char *s2, long i2, char *s3, long i3);
#define VS(x) _Generic((x), char *: (x), default: (char *)0)
#define VI(x) _Generic((x), char *: 0L, long double: 0L, default: (long)(x))
#define PL_(f,a,b,c,d,...) verif_emit(f, VS(a),VI(a), VS(b),VI(b), VS(c),VI(c), VS(d),VI(d))
#define println(...) PL_(__VA_ARGS__, 0L,0L,0L,0L,0L)
#define error_tok(...) __CPROVER_assume(0)
#define error(...) __CPROVER_assume(0)
#define CHIBICC_H_DONE
#include "codegen_x.c"
#undef println
#undef error_tok
#undef error
static uint64_t *reg64(const char *r){ if(!strcmp(r,"%rax")||!strcmp(r,"%eax"))return &m.rax; if(!strcmp(r,"%rdi")||!strcmp(r,"%edi"))return &m.rdi; if(!strcmp(r,"%rdx")||!strcmp(r,"%edx"))return &m.rdx; m.unknown=1; return &m.rax;}
static int is32(const char *r){ return r[1]=='e'; }
void verif_emit(const char *fmt, char *s0, long i0, char *s1, long i1, char *s2, long i2, char *s3, long i3) {
  if(!strcmp(fmt,"  mov $%ld, %%rax")) { m.rax = i0; return; }
  if(!strcmp(fmt,"  push %%rax")) { if (m.sp >= 8) { m.unknown = 1; return; } m.stk[m.sp++] = m.rax; return; }
  if(!strcmp(fmt,"  pop %s")) { if (m.sp <= 0) { m.unknown = 1; return; } *reg64(s0) = m.stk[--m.sp]; return; }
  if(!strcmp(fmt,"  add %s, %s")) { if(is32(s1)) *reg64(s1) = (uint32_t)(*reg64(s0) + *reg64(s1)); else *reg64(s1) += *reg64(s0); return; }
  if(!strcmp(fmt,"  sub %s, %s")) { if(is32(s1)) *reg64(s1) = (uint32_t)(*reg64(s1) - *reg64(s0)); else *reg64(s1) -= *reg64(s0); return; }
  if(!strcmp(fmt,"  .loc %d %d")) return;
  m.unknown = 1;
}
bool opt_fpic;
Node *gk[3]; uint64_t gv[3];
uint64_t verif_val(Node *n) { return n == gk[0] ? gv[0] : n == gk[1] ? gv[1] : gv[2]; }
_Bool conv_eq(Type *ty, uint64_t reg, uint64_t v) { return ty->size == 8 ? reg == v : (uint32_t)reg == (uint32_t)v; }

static void gen_expr(Node *node)
__CPROVER_requires(node != NULL && 0 <= m.sp && m.sp <= 5 && depth == m.sp && !m.unknown)
__CPROVER_assigns(m, depth)
__CPROVER_ensures(!m.unknown && m.sp == __CPROVER_old(m.sp) && depth == m.sp)
__CPROVER_ensures(conv_eq(node->ty, m.rax, verif_val(node)))
__CPROVER_ensures(m.sp < 1 || m.stk[0] == __CPROVER_old(m.stk[0]))
__CPROVER_ensures(m.sp < 2 || m.stk[1] == __CPROVER_old(m.stk[1]))
__CPROVER_ensures(m.sp < 3 || m.stk[2] == __CPROVER_old(m.stk[2]))
__CPROVER_ensures(m.sp < 4 || m.stk[3] == __CPROVER_old(m.stk[3]))
__CPROVER_ensures(m.sp < 5 || m.stk[4] == __CPROVER_old(m.stk[4]))
;
void harness(void) {
  File file = {0}; Token tok = {0}; tok.file = &file;
  Node l = {0}, r = {0}, n = {0};
  _Bool is_long; Type TL = {TY_LONG,8,8}, TI = {TY_INT,4,4}; ty_long = &TL; ty_int = &TI;
  Type *t = is_long ? ty_long : ty_int;
  l.ty = t; l.tok = &tok; r.ty = t; r.tok = &tok;
  n.kind = KIND; n.lhs = &l; n.rhs = &r; n.ty = t; n.tok = &tok;
  gk[0] = &l; gk[1] = &r;
  uint64_t a = gv[0], b = gv[1];
  gv[2] = (KIND == ND_SUB) ? a - b : a + b;
  int sp0; __CPROVER_assume(0 <= sp0 && sp0 <= 4); m.sp = sp0; depth = sp0; m.unknown = 0;
  gen_expr(&n);
}
