#include "/repo/chibicc.h"
#define VERIF_GHOST(...) __VA_ARGS__
#define VERIF_ASSERT(c, msg) __CPROVER_assert(c, msg)
#define error_tok(...) __CPROVER_assume(0)
#define error(...) __CPROVER_assume(0)
#define format(...) verif_format()
char *verif_format(void);
// spec: one step of the psABI struct layout rule (independent of the code)
static _Bool is_pow2(int x) { return x > 0 && (x & (x - 1)) == 0; }
_Bool verif_struct_step(Type *ty, Member *mem, int bits0, int align0, int bits1) {
  int sz = mem->ty->size;
  if (mem->is_bitfield && mem->bit_width == 0) {
    // zero-width: next member starts at a boundary of the declared type
    return bits1 >= bits0 && bits1 - bits0 < sz * 8 && bits1 % (sz * 8) == 0;
  }
  if (mem->is_bitfield) {
    int start = mem->offset * 8 + mem->bit_offset;
    return start >= bits0 && bits1 == start + mem->bit_width
        && mem->offset % sz == 0                                   // storage unit aligned to its type
        && mem->bit_offset >= 0 && mem->bit_offset + mem->bit_width <= sz * 8   // does not straddle the unit
        && (start == bits0 || (start % (sz * 8) == 0 && start - bits0 < sz * 8 && bits0 / (sz*8) != (bits0 + mem->bit_width - 1) / (sz*8)));
  }
  int a = ty->is_packed ? 1 : mem->align;
  return mem->offset * 8 >= bits0 && mem->offset % a == 0 && mem->offset * 8 - bits0 < a * 8 + 8   // lowest aligned byte offset at/after bits0
      && mem->offset * 8 - bits0 >= 0 && (mem->offset * 8 - a * 8 < bits0)
      && bits1 == mem->offset * 8 + sz * 8
      && (ty->is_packed || ty->align >= mem->align) && ty->align >= align0;
}
#include "parse_x.c"
Member verif_X; Type verif_XT; Type verif_T;
static Type *struct_union_decl(Token **rest, Token *tok)
__CPROVER_assigns(*rest, verif_T.size, verif_T.align, verif_T.is_packed, verif_T.members)
__CPROVER_ensures(__CPROVER_return_value == &verif_T)
__CPROVER_ensures(verif_T.size == 0 || verif_T.size == -1)
__CPROVER_ensures(verif_T.align >= 1 && verif_T.align <= 64 && ((verif_T.align & (verif_T.align - 1)) == 0))
__CPROVER_ensures(verif_T.members == 0 || verif_T.members == &verif_X)
;
static Type *struct_decl(Token **rest, Token *tok)
__CPROVER_requires(__CPROVER_is_fresh(rest, sizeof(*rest)))
__CPROVER_requires(verif_X.ty == &verif_XT && (verif_X.next == 0 || verif_X.next == &verif_X))
__CPROVER_requires(verif_X.align == AL && (!verif_X.is_bitfield || verif_XT.size == SZ) && verif_XT.size >= 0 && verif_XT.size <= 4096 && verif_X.align >= 1 && verif_X.align <= 64 && ((verif_X.align & (verif_X.align - 1)) == 0))
__CPROVER_requires(!verif_X.is_bitfield || ((verif_XT.size == 1 || verif_XT.size == 2 || verif_XT.size == 4 || verif_XT.size == 8) && verif_X.bit_width >= 0 && verif_X.bit_width <= verif_XT.size * 8))
__CPROVER_assigns(*rest, verif_T.size, verif_T.align, verif_T.is_packed, verif_T.members, verif_T.kind, verif_X.offset, verif_X.bit_offset)
__CPROVER_ensures(1)
;
void harness(void) { Token **rest; Token *tok; struct_decl(rest, tok); }
