#include "/repo/hashmap.c"
static uint64_t fnv_hash(char *s, int len)
__CPROVER_requires(len >= 0 && len <= 64 && __CPROVER_is_fresh(s, 64))
__CPROVER_ensures(1)
__CPROVER_assigns();
void h_fnv(void) { char *k; int n; fnv_hash(k,n); }
