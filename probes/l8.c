typedef struct N { struct N *next; int sz; int off; int *pa; } N;
N X; int A;
int layout(N *head)
{
  int bits = 0;
  for (N *m = head; m; m = m->next)
  {
    if (bits > 900000) return 0;
    m->off = bits;
    *m->pa = bits;
    bits += m->sz;
    __CPROVER_assert(m->off + m->sz == bits, "step");
  }
  return bits;
}
void harness(void) { _Bool b, c; int s; __CPROVER_assume(s >= 0 && s <= 100); X.sz = s; X.next = c ? &X : 0; X.pa = &A; int r = layout(b ? &X : 0); __CPROVER_assert(r >= 0, "post"); }
